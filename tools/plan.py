"""Configurations (DESIGN 3) and per-property job tables."""

SOFT_FLAGS = '--cfg aes_force_soft --cfg kuznyechik_backend="soft" --cfg serpent_no_unroll'
COMPACT_FLAGS = '--cfg aes_force_soft --cfg aes_compact --cfg kuznyechik_backend="compact_soft"'
X64 = "x86_64-unknown-linux-gnu"
MIRIFLAGS = "-Zmiri-disable-isolation -Zmiri-ignore-leaks"

CFGS = {
    "dev": {"profile": "dev"},
    "rel": {"profile": "release"},
    "devfast": {"profile": "devfast"},
    "soft": {"profile": "devfast", "rustflags": SOFT_FLAGS},
    "compact": {"profile": "devfast", "rustflags": COMPACT_FLAGS},
    "compact-auto": {"profile": "release", "rustflags": "--cfg aes_compact"},
    "static-ni": {"profile": "release", "rustflags": "-Ctarget-feature=+aes,+ssse3"},
    # threefish without its default `cipher` feature but with `zeroize` (own package, own target dir: no feature unification)
    "tf-nocipher": {"profile": "dev", "package": "tfmon", "bin": "tfmon"},
    # feature x cfg interaction: the compact software backends built WITHOUT the optional features
    "compact-nofeat": {"profile": "release", "rustflags": COMPACT_FLAGS, "features": ["--no-default-features", "--features", "shadows"]},
    "nofeat": {"profile": "release", "features": ["--no-default-features", "--features", "shadows"]},
    "asan": {"profile": "dev", "nightly": True, "target": X64,
             "rustflags": "-Zsanitizer=address -Cforce-frame-pointers=yes",
             "runenv": {"ASAN_OPTIONS": "exitcode=66:halt_on_error=1:detect_leaks=0:detect_stack_use_after_return=1"}},
    "tsan": {"optional": True, "profile": "dev", "nightly": True, "target": X64, "build_std": True,
             "rustflags": "-Zsanitizer=thread",
             "runenv": {"TSAN_OPTIONS": "exitcode=66:halt_on_error=1"}},
    "vg": {"profile": "release", "dir": "rel",
           "wrapper": ["valgrind", "-q", "--error-exitcode=67", "--track-origins=no", "--expensive-definedness-checks=no"]},
    "miri-x64": {"kind": "miri", "miriflags": MIRIFLAGS},
    "miri-i686": {"kind": "miri", "target": "i686-unknown-linux-gnu", "miriflags": MIRIFLAGS},
    "miri-s390x": {"kind": "miri", "target": "s390x-unknown-linux-gnu", "miriflags": MIRIFLAGS,
                   "features": ["--no-default-features", "--features", "full"]},
    # 32-bit AND big-endian (fixslice32 on a big-endian target); optional: sysroot is built from rust-src on first use
    "miri-ppc32": {"optional": True, "kind": "miri", "target": "powerpc-unknown-linux-gnu", "miriflags": MIRIFLAGS,
                   "features": ["--no-default-features", "--features", "full"]},
}

# built by `check setup` (everything the quick tier of any property uses)
SETUP_CFGS = ["tf-nocipher", "compact-nofeat", "nofeat", "dev", "rel", "devfast", "soft", "compact", "asan", "tsan", "miri-x64", "miri-s390x", "miri-i686"]


def J(cfg, monitor, args=None, nshards=1, scale=1.0, detect="real", timeout=1800, **kw):
    d = {"cfg": cfg, "monitor": monitor, "args": list(args or []), "nshards": nshards, "scale": scale, "detect": detect, "timeout": timeout}
    d.update(kw)
    return d


def need_types(n):
    def floor(reports):
        seen = set()
        for r in reports:
            seen.update(r.get("per_type", {}).keys())
        if len(seen) < n:
            return "only %d types/routes observed (expected >= %d)" % (len(seen), n)
        return None
    return floor


def need_evals(n):
    def floor(reports):
        e = sum(r.get("evaluations", 0) for r in reports)
        return None if e >= n else "only %d evaluations (expected >= %d)" % (e, n)
    return floor


def _host_has_aes():
    try:
        for line in open("/proc/cpuinfo"):
            if line.startswith("flags"):
                return " aes " in (line + " ")
    except OSError:
        pass
    return True


HOST_AES = _host_has_aes()


def need_width(cfgkey, typ, width):
    """The backend that a configuration is meant to reach must actually have been selected."""
    def floor(reports):
        # widths 9 (AES-NI) and 21/19/17 (ARMv8 shadow behind the x86 "aes" detection bit) can only be
        # observed on a host with AES instructions; on another host the floor does not apply
        if not HOST_AES and width in (9, 21, 19, 17) and "detect-off" not in cfgkey:
            return None
        for r in reports:
            j = r.get("_job", {})
            key = j.get("cfg") + ("+detect-off" if j.get("detect") == "off" else "")
            if cfgkey.startswith("*"):
                if not key.endswith(cfgkey[1:]) or key.startswith("miri") or key.startswith("compact"):
                    continue
            elif key != cfgkey:
                continue
            m = r.get("per_type", {}).get(typ)
            if m and "width_enc" in m:
                if m["width_enc"] == width:
                    return None
                return "%s reports width %s for %s (expected %s): a different backend was selected" % (cfgkey, m["width_enc"], typ, width)
        return "no width observation for %s in %s" % (typ, cfgkey)
    return floor


KAT_RULE = ("cases = (type/route, key, block) generated by a seeded xoshiro256** stream: half uniform, half from 14 structured classes "
            "(all-00/FF, walking bits, low/high weight, edge bytes, edge 16/32/64-bit words, half-constant), every accepted key length, plus "
            "exhaustive single-bit sweeps over key and block; each case is judged against the specification-literal reference model (and "
            "libcrypto where it has the algorithm); distinct_nontrivial = distinct case hashes with a >=64-bit random component, counted once per "
            "case stream (the same stream is replayed in every configuration), plus distinct structured cases")


def kat_prop(prop, extra_quick=(), extra_thorough=()):
    # the big-endian slice (Miri, s390x): every canonical route of the property's types once per run
    # (C10: a quarter of its ~120 instantiations, moving with the seed)
    be_mod = "16" if prop == "C10" else "4"
    q = [J("dev", "kat", ["--prop", prop], nshards=4), J("rel", "kat", ["--prop", prop], nshards=4),
         J("miri-s390x", "kat", ["--prop", prop, "--filter", "#new", "--sample-mod", be_mod], nshards=4, scale=0.0004, timeout=2400),
         # the 32-bit slice (Miri, i686): same coverage rule
         J("miri-i686", "kat", ["--prop", prop, "--no-shadow", "--filter", "#new", "--sample-mod", be_mod], nshards=4, scale=0.0004, timeout=2400)] + list(extra_quick)
    if prop == "C10":
        # the RC5 grid is sampled; the other ARX / GIFT types run on both targets in every run
        for tgt, extra in (("miri-s390x", []), ("miri-i686", ["--no-shadow"])):
            for fam in ("gift_cipher::", "speck_cipher::", "threefish::Threefish256", "threefish::Threefish512"):
                q.append(J(tgt, "kat", ["--prop", prop, "--filter", fam, "--routes", "new,new_with_tweak_u64"] + extra, nshards=1, scale=0.0002, timeout=2400))
    # thorough native volume: a multiple of the 30k keys per type/route of the base budget
    ts = {"C05": 40.0, "C06": 48.0, "C08": 40.0, "C09": 32.0, "C07": 8.0}.get(prop, 1.0)
    t = [J("dev", "kat", ["--prop", prop], nshards=16, scale=ts), J("rel", "kat", ["--prop", prop], nshards=16, scale=ts),
         J("devfast", "kat", ["--prop", prop], nshards=16, scale=ts),
         J("miri-x64", "kat", ["--prop", prop, "--no-shadow", "--sample-mod", "4"], nshards=4, scale=0.0004, timeout=3000),
         J("miri-s390x", "kat", ["--prop", prop, "--sample-mod", "4"], nshards=4, scale=0.0004, timeout=3000)] + list(extra_thorough)
    return q, t


PROPS = {}

# ---- C01
PROPS["C01"] = {
    "quick": [J("dev", "roundtrip", nshards=4), J("rel", "roundtrip", nshards=4),
              J("dev", "roundtrip", detect="off", nshards=2), J("rel", "roundtrip", detect="off", nshards=2),
              J("soft", "roundtrip", nshards=2), J("compact", "roundtrip", nshards=2),
              J("miri-x64", "roundtrip", ["--no-shadow", "--sample-mod", "32"], nshards=4, scale=0.001, timeout=2400),
              J("miri-s390x", "roundtrip", ["--filter", "#new", "--sample-mod", "16"], nshards=4, scale=0.001, timeout=2400)],
    "thorough": [J(c, "roundtrip", nshards=8) for c in ("dev", "rel", "devfast", "soft", "compact", "static-ni", "nofeat")] +
                [J("dev", "roundtrip", detect="off", nshards=4), J("rel", "roundtrip", detect="off", nshards=4),
                 J("compact-auto", "roundtrip", detect="off", nshards=4),
                 J("asan", "roundtrip", nshards=4, scale=0.2), J("asan", "roundtrip", detect="off", nshards=2, scale=0.2),
                 J("miri-x64", "roundtrip", ["--no-shadow", "--sample-mod", "24"], nshards=12, scale=0.001, timeout=3000),
                 J("miri-i686", "roundtrip", ["--no-shadow", "--sample-mod", "24"], nshards=12, scale=0.001, timeout=3000),
                 J("miri-s390x", "roundtrip", ["--sample-mod", "24"], nshards=12, scale=0.001, timeout=3000)],
    "rule": ("cases = (type/route, key, block or batch) from the seeded class generator (half uniform, half structured), every accepted key length, "
             "all construction routes (new, Enc+Dec pairs, conversions, clones, tweaked constructors, u64 API), BelT wide block on every length "
             "32..=300 plus random lengths to 4096; oracle: dec(enc(x))==x and enc(dec(x))==x; distinct_nontrivial = distinct case hashes with a "
             ">=64-bit random component counted once per case stream plus distinct structured cases"),
    "floors": [need_types(150), need_evals(50_000),
               need_width("dev", "aes::Aes128#new", 9), need_width("dev+detect-off", "aes::Aes128#new", 4),
               need_width("soft", "aes::Aes128#new", 4)],
    "assumptions": ["ARMv8/NEON sources run over a software model of the intrinsics (shadow crates)",
                    "keys and blocks are sampled, not enumerated"],
}

# ---- C02
q, t = kat_prop("C02",
                extra_quick=[J("dev", "kat", ["--prop", "C02"], detect="off", nshards=2), J("soft", "kat", ["--prop", "C02"], nshards=2),
                             J("compact", "kat", ["--prop", "C02"], nshards=2),
                             # Miri sees the fallback arm of the autodetect union (detection answers "absent" there): every
                             # route that ends in a Dec-only object, every run
                             J("miri-x64", "kat", ["--prop", "C02", "--no-shadow", "--filter", "Dec#"], nshards=5, scale=0.0002, timeout=2400)],
                extra_thorough=[J("rel", "kat", ["--prop", "C02"], detect="off", nshards=4), J("soft", "kat", ["--prop", "C02"], nshards=4),
                                J("compact", "kat", ["--prop", "C02"], nshards=4), J("compact-auto", "kat", ["--prop", "C02"], detect="off", nshards=4),
                                J("static-ni", "kat", ["--prop", "C02"], nshards=4), J("asan", "kat", ["--prop", "C02"], nshards=2, scale=0.1),
                                J("miri-i686", "kat", ["--prop", "C02", "--no-shadow", "--sample-mod", "4"], nshards=4, scale=0.0004, timeout=3000),
                                J("miri-ppc32", "kat", ["--prop", "C02", "--filter", "#new", "--sample-mod", "2"], nshards=2, scale=0.0004, timeout=3000)])
PROPS["C02"] = {"quick": q, "thorough": t, "rule": KAT_RULE,
                "floors": [need_types(30), need_width("dev", "aes::Aes128#new", 9), need_width("dev", "S:aes_armv8::Aes128#new", 21),
                           need_width("dev", "S:aes_soft32::Aes128#new", 2), need_width("dev", "S:aes_soft32c::Aes256#new", 2),
                           need_width("*+detect-off", "aes::Aes256#new", 4), need_width("soft", "aes::Aes192#new", 4),
                           need_width("compact", "aes::Aes192#new", 4)],
                "assumptions": ["reference model validated by FIPS-197 Appendix A-C and by libcrypto", "ARMv8 backend runs over the ISA model"]}

for p in ("C05", "C06", "C07", "C08", "C09", "C10"):
    eq, et = [], []
    if p in ("C07", "C08"):
        eq = [J("soft", "kat", ["--prop", p], nshards=2), J("compact", "kat", ["--prop", p], nshards=2)]
        et = [J("soft", "kat", ["--prop", p], nshards=4), J("compact", "kat", ["--prop", p], nshards=4), J("asan", "kat", ["--prop", p], nshards=2, scale=0.1),
              J("compact-nofeat", "kat", ["--prop", p, "--no-shadow"], nshards=4), J("nofeat", "kat", ["--prop", p, "--no-shadow"], nshards=4)]
    if p == "C10":
        eq = [J("tf-nocipher", "tfmon")]
        et = [J("miri-i686", "kat", ["--prop", p, "--no-shadow", "--sample-mod", "8"], nshards=8, scale=0.0004, timeout=3000), J("tf-nocipher", "tfmon")]
    q, t = kat_prop(p, eq, et)
    PROPS[p] = {"quick": q, "thorough": t, "rule": KAT_RULE, "floors": [need_types(3), need_evals(10_000)],
                "assumptions": ["reference models written from the standards and pinned by their published vectors (see refmodels/*.rs tests)"]}
PROPS["C07"]["floors"] += [need_width("dev", "kuznyechik::Kuznyechik#new", 4), need_width("dev", "S:kuz_neon::Kuznyechik#new", 8),
                           need_width("soft", "kuznyechik::Kuznyechik#new", 3), need_width("compact", "kuznyechik::Kuznyechik#new", 1)]

# ---- C04
PROPS["C04"] = {
    "quick": [J("dev", "batch", nshards=4), J("rel", "batch", nshards=4), J("dev", "batch", detect="off", nshards=2),
              J("soft", "batch", nshards=2), J("asan", "batch", nshards=2, scale=0.5),
              J("miri-x64", "batch", ["--no-shadow", "--sample-mod", "64"], nshards=4, scale=0.01, timeout=2400),
              # the parallel software backends on a big-endian target, every run
              J("miri-s390x", "batch", ["--filter", "kuznyechik::"], nshards=2, scale=0.01, timeout=2400),
              J("miri-s390x", "batch", ["--filter", "aes::Aes128#new"], nshards=1, scale=0.01, timeout=2400)],
    "thorough": [J(c, "batch", nshards=8) for c in ("dev", "rel", "soft", "compact", "static-ni")] +
                [J("dev", "batch", detect="off", nshards=4), J("compact-auto", "batch", detect="off", nshards=4),
                 J("asan", "batch", nshards=8), J("asan", "batch", detect="off", nshards=4),
                 J("vg", "batch", ["--filter", "aes"], nshards=4, scale=0.04, timeout=3000),
                 J("vg", "batch", ["--filter", "uznyechik"], nshards=2, scale=0.04, timeout=3000),
                 J("miri-x64", "batch", ["--no-shadow", "--sample-mod", "32"], nshards=12, scale=0.01, timeout=3000),
                 J("miri-i686", "batch", ["--no-shadow", "--sample-mod", "32"], nshards=12, scale=0.01, timeout=3000),
                 J("miri-s390x", "batch", ["--sample-mod", "32"], nshards=12, scale=0.01, timeout=3000),
                 J("miri-ppc32", "batch", ["--filter", "aes::", "--sample-mod", "4"], nshards=4, scale=0.01, timeout=3000)],
    "rule": ("cases = (type, direction, call shape in {block, block_b2b, block_inout, blocks, blocks_b2b, blocks_inout, backend par+tail, backend per-block}, "
             "block count n in 0..=3W+2 plus a random larger n, byte offsets 0..15 of in/out inside canary-filled arenas, contents random / all-equal / one-hot); "
             "oracle: output == per-block single call, canaries intact, separate input unchanged, perturbing block j changes output j only; "
             "distinct_nontrivial = distinct (type,key,data,shape,offsets) hashes with n>0 counted once per case stream"),
    "floors": [need_types(60), need_width("dev", "aes::Aes128#new", 9), need_width("dev+detect-off", "aes::Aes128#new", 4),
               need_width("dev", "S:aes_armv8::Aes192#new", 19), need_width("dev", "S:kuz_neon::Kuznyechik#new", 8)],
    "assumptions": ["the safe API cannot express partially overlapping in/out buffers, so none are tried",
                    "redzone tools are a backstop; the canary comparison is the primary oracle"],
}


# ---- C03: cross-configuration join
def x_post(prop, reports):
    """Offline checker: join the output-digest logs of all configurations; every pair must
    agree on every common case id."""
    import itertools
    logs = {}   # cfgkey -> {case slot -> [digests]}
    for r in reports:
        xl = r.get("x_log")
        if not xl:
            continue
        j = r.get("_job", {})
        key = "%s%s#%d/%d" % (j.get("cfg"), "+detect-off" if j.get("detect") == "off" else "", j.get("shard", 0), j.get("nshards", 1))
        logs[key] = (j, xl)
    viol = []
    pairs = 0
    cases_compared = 0
    per_pair = {}
    # group by shard (same shard => same case stream)
    by_shard = {}
    for key, (j, xl) in logs.items():
        by_shard.setdefault((j.get("shard", 0), j.get("nshards", 1)), []).append((key, j, xl))
    for (sh, ns), group in by_shard.items():
        # flatten: implementation label -> {canonical case id -> digests}
        impls = {}
        for key, j, xl in group:
            cfgkey = key.split("#")[0]
            for slot, digs in xl.items():
                cid, _, shadow = slot.partition("@")
                label = cfgkey + (("/" + shadow) if shadow else "")
                impls.setdefault(label, {})[cid] = digs
        for a, b in itertools.combinations(sorted(impls), 2):
            common = set(impls[a]) & set(impls[b])
            n = 0
            for cid in common:
                da, db = impls[a][cid], impls[b][cid]
                m = min(len(da), len(db))
                for i in range(m):
                    n += 1
                    if da[i] != db[i]:
                        viol.append({"sig": "xconfig|%s|output differs between %s and %s" % (cid, a, b),
                                     "detail": {"type": cid.split("#")[0], "case_index": i, "a": a, "b": b, "digest_a": da[i], "digest_b": db[i], "shard": "%d/%d" % (sh, ns)}})
                        break
            if n:
                pairs += 1
                per_pair["%s ~ %s" % (a, b)] = per_pair.get("%s ~ %s" % (a, b), 0) + n
                cases_compared += n
    # keep the first disagreement per (case id) only
    seen = set()
    out = []
    for v in viol:
        k = v["sig"].split("|")[1]
        if k in seen:
            continue
        seen.add(k)
        out.append(v)
    return {"monitor": "xconfig-join", "cfg": "offline", "violations": out, "evaluations": cases_compared, "distinct_random": 0,
            "structured_hashes": [], "per_type": {}, "counters": {"config_pairs_compared": len(per_pair), "pairwise_case_comparisons": cases_compared},
            "samples": [{"pair": k, "cases": v} for k, v in list(sorted(per_pair.items()))[:6]], "notes": [], "inconclusive": [] if cases_compared else ["no pair of configurations had a common case"],
            "x_pairs": len(per_pair), "_job": {"cfg": "offline", "monitor": "xconfig-join"}, "_wall": 0.0, "_sanitizer": [], "status": "ok"}


XQ = [("dev", "real"), ("dev", "off"), ("rel", "real"), ("soft", "real"), ("compact", "real"), ("devfast", "real")]
XT = XQ + [("rel", "off"), ("compact-auto", "off"), ("static-ni", "real"), ("nofeat", "real"), ("asan", "real")]
PROPS["C03"] = {
    "quick": [J(c, "xconfig", nshards=2, detect=d) for c, d in XQ] +
             [J("miri-x64", "xconfig", ["--no-shadow", "--sample-mod", "24"], nshards=2, scale=0.01, timeout=2400),
              J("miri-x64", "xconfig", ["--no-shadow", "--filter", "aes::Aes"], nshards=2, scale=0.002, timeout=2400),
              J("miri-s390x", "xconfig", ["--sample-mod", "12"], nshards=2, scale=0.01, timeout=2400),
              J("miri-i686", "xconfig", ["--no-shadow", "--sample-mod", "24"], nshards=2, scale=0.01, timeout=2400)],
    "thorough": [J(c, "xconfig", nshards=4, detect=d, scale=8.0) for c, d in XT] +
                [J("vg", "xconfig", ["--sample-mod", "4"], nshards=4, scale=0.02, timeout=3000),
                 J("miri-x64", "xconfig", ["--no-shadow", "--sample-mod", "8"], nshards=4, scale=0.003, timeout=3000),
                 J("miri-i686", "xconfig", ["--no-shadow", "--sample-mod", "8"], nshards=4, scale=0.003, timeout=3000),
                 J("miri-s390x", "xconfig", ["--sample-mod", "8"], nshards=4, scale=0.003, timeout=3000),
                 J("miri-ppc32", "xconfig", ["--sample-mod", "16"], nshards=4, scale=0.003, timeout=3000)],
    "post": x_post,
    "rule": ("every configuration runs the same canonical case list (keys from the class generator, batches of 1..43 blocks, both directions) for every public "
             "type; a 64-bit digest of each output is logged under a configuration-independent case id (shadow crates log under the real type's id); the offline "
             "checker joins the logs and requires every pair of implementations to agree on every common case; distinct_nontrivial = distinct (type,key,data) cases "
             "of one stream (each is then compared across all pairs)"),
    "floors": [need_types(60), need_width("dev", "aes::Aes128#new", 9), need_width("dev+detect-off", "aes::Aes128#new", 4),
               need_width("soft", "kuznyechik::Kuznyechik#new", 3), need_width("compact", "kuznyechik::Kuznyechik#new", 1),
               lambda reports: None if any(r.get("x_pairs", 0) >= 10 for r in reports) else "fewer than 10 configuration pairs were joined"],
    "assumptions": ["ARMv8 / NEON / fixslice32 run as shadow crates over the ISA model or natively specialised sources",
                    "Miri slices of a scaled run see a prefix of the same case stream"],
}

# ---- C11
PROPS["C11"] = {
    "quick": [J("dev", "keylen", nshards=4), J("rel", "keylen", nshards=4),
              J("miri-x64", "keylen", ["--no-shadow", "--sample-mod", "16"], nshards=2, scale=0.01, timeout=2400),
              J("miri-s390x", "keylen", ["--sample-mod", "8"], nshards=4, scale=0.01, timeout=2400),
              # every type's constructor pairs (new vs new_from_slice, padded forms) on the big-endian target
              J("miri-s390x", "keylen", ["--equiv-only"], nshards=6, scale=0.01, timeout=2400)],
    "thorough": [J("dev", "keylen", nshards=16, scale=30.0), J("rel", "keylen", nshards=16, scale=30.0), J("devfast", "keylen", nshards=16, scale=30.0), J("soft", "keylen", nshards=8, scale=10.0),
                 J("miri-x64", "keylen", ["--no-shadow", "--sample-mod", "4"], nshards=4, scale=0.01, timeout=3000),
                 J("miri-i686", "keylen", ["--no-shadow", "--sample-mod", "4"], nshards=4, scale=0.01, timeout=3000),
                 J("miri-s390x", "keylen", ["--sample-mod", "4"], nshards=4, scale=0.01, timeout=3000)],
    "rule": ("for every public type, new_from_slice on every length 0..=300 and 511,512,1000,4096,65536 with class-generated bytes, judged against the "
             "specification's accepted-length table, under catch_unwind; constructor pairs (new vs slice, Rc2 eff-len, CAST5/CAST6/Serpent short vs padded, "
             "Threefish zero tweak) compared by behaviour on probe blocks; distinct_nontrivial = distinct (type,length,bytes) cases with >=8 random bytes plus "
             "distinct (type,length) pairs"),
    "floors": [need_types(60), need_evals(20_000)],
    "assumptions": ["all length guards are comparisons against constants below 300, so 0..=300 is exhaustive over where behaviour can differ"],
}

# ---- C12
PROPS["C12"] = {
    "quick": [J("dev", "convert", nshards=4), J("rel", "convert", nshards=4), J("dev", "convert", detect="off", nshards=4),
              J("soft", "convert", ["--filter", "::"], nshards=2), J("asan", "convert", nshards=2, scale=0.1),
              J("miri-x64", "convert", ["--no-shadow", "--sample-mod", "24"], nshards=4, scale=0.0005, timeout=2400),
              J("miri-x64", "convert", ["--no-shadow", "--filter", "Dec#"], nshards=5, scale=0.0002, timeout=2400)],
    "thorough": [J(c, "convert", nshards=8) for c in ("dev", "rel", "soft", "compact", "static-ni")] +
                [J("dev", "convert", detect="off", nshards=8), J("rel", "convert", detect="off", nshards=4),
                 J("compact-auto", "convert", detect="off", nshards=4), J("asan", "convert", nshards=4, scale=0.3),
                 J("asan", "convert", detect="off", nshards=4, scale=0.3),
                 J("vg", "convert", ["--filter", "Aes"], nshards=4, scale=0.003, timeout=3000),
                 J("miri-x64", "convert", ["--no-shadow", "--sample-mod", "8"], nshards=8, scale=0.0005, timeout=3000),
                 J("miri-i686", "convert", ["--no-shadow", "--sample-mod", "8"], nshards=8, scale=0.0005, timeout=3000)],
    "rule": ("cases = (construction route, key, block/batch): routes {new, new_fixed, clone, from &Enc, from Enc by value then clone, Enc+Dec new, clone+clone, "
             "Dec from &Enc, Dec from Enc by value then clone, chain} for the three AES sizes and Kuznyechik under every backend (sources dropped before use, "
             "zeroize on), and clone-then-drop-original for every other Clone type; oracle: the reference model for the key; " + KAT_RULE.split(";")[-1]),
    "floors": [need_types(80), need_width("dev", "aes::Aes128#from_enc_ref", 9), need_width("dev+detect-off", "aes::Aes128#from_enc_ref", 4),
               need_width("dev+detect-off", "S:aes_armv8::Aes128#from_enc_ref", 4), need_width("dev", "S:aes_armv8::Aes128#from_enc_ref", 21)],
    "assumptions": ["chains are enumerated to depth 3, not generated to arbitrary depth"],
}

# ---- C13
PROPS["C13"] = {
    "quick": [J("dev", "weak", nshards=4), J("rel", "weak", nshards=2), J("soft", "weak", ["--no-shadow"], nshards=2),
              J("miri-x64", "weak", ["--no-shadow", "--sample-mod", "16"], nshards=2, scale=0.002, timeout=2400),
              J("miri-s390x", "weak", ["--filter", "des::"], nshards=3, scale=0.002, timeout=2400)],
    "thorough": [J("dev", "weak", nshards=16, scale=40.0), J("rel", "weak", nshards=16, scale=40.0), J("soft", "weak", nshards=8, scale=12.0),
                 J("miri-x64", "weak", ["--no-shadow", "--sample-mod", "4"], nshards=4, scale=0.0005, timeout=3000),
                 J("miri-s390x", "weak", ["--sample-mod", "4"], nshards=4, scale=0.0005, timeout=3000)],
    "rule": ("keys per type: AES every single-bit and single-zero-bit key, upper-half-zero with class-generated lower half, neighbours; DES the 64 NIST keys "
             "(derived from the semantic rule, not from the repository's table) x all 256 parity patterns (exhaustive), each with each effective bit flipped, "
             "class-generated keys; TDES weak parts in each position, equal parts with differing parity, near-equal parts; every other type class keys; oracle: "
             "the semantic rule (AES upper half zero; DES PC-1 halves are an even-weight 4-bit pattern repeated; TDES any part weak or two parts equal after "
             "parity stripping); new_checked must agree and otherwise equal new; distinct_nontrivial = distinct (type,key) with a random component plus distinct structured keys"),
    "floors": [need_types(60), need_evals(30_000)],
    "assumptions": ["the NIST set is characterised by the PC-1 pattern rule (checked to yield exactly 64 keys on every run)"],
}

# ---- C14
PROPS["C14"] = {
    "quick": [J("dev", "bcrypt", nshards=4), J("rel", "bcrypt", nshards=4),
              J("miri-s390x", "bcrypt", nshards=4, scale=0.0002, timeout=2400)],
    "thorough": [J("dev", "bcrypt", nshards=16, scale=12.0), J("rel", "bcrypt", nshards=16, scale=12.0), J("devfast", "bcrypt", nshards=16, scale=12.0),
                 J("asan", "bcrypt", nshards=2, scale=0.1),
                 J("miri-x64", "bcrypt", nshards=2, scale=0.0003, timeout=3000),
                 J("miri-s390x", "bcrypt", nshards=8, scale=0.0003, timeout=3000)],
    "rule": ("random histories (2..65 steps) over {bc_init_state, bc_expand_key, salted_expand_key, bc_encrypt} with salt/key lengths 1..=100 (incl. coprime to 4 "
             "and > 72); after every step the state is fingerprinted by bc_encrypt on 32 probe pairs and compared with the eksblowfish reference; relations "
             "(plain == zero salt of any length == ordinary keying); whole bcrypt computations (cost 4..7) assembled from the crate's primitives vs the reference and "
             "vs libxcrypt crypt(); distinct_nontrivial = distinct (history, step) states"),
    "floors": [need_evals(500)],
    "assumptions": ["the state is observed through its permutation (probes) and all later steps, not byte-compared", "libxcrypt present (else model-only)"],
}

# ---- C15
PROPS["C15"] = {
    "quick": [J("dev", "history", nshards=4), J("rel", "history", nshards=2), J("dev", "history", detect="off", nshards=2),
              J("compact-nofeat", "history", ["--no-shadow"], nshards=2), J("nofeat", "history", ["--no-shadow"], nshards=2),
              J("dev", "threads", nshards=4), J("rel", "threads", nshards=4), J("dev", "threads", detect="off", nshards=2, scale=0.5),
              J("dev", "firstuse", nshards=2), J("rel", "firstuse", nshards=2), J("dev", "firstuse", detect="off"),
              J("tsan", "threads", scale=0.04), J("tsan", "firstuse", scale=0.3),
              # address-dependent fast paths of the big-endian software backends
              J("miri-s390x", "history", ["--filter", "kuznyechik::Kuznyechik#new"], nshards=2, scale=0.002, timeout=2400)],
    "thorough": [J(c, "history", nshards=8) for c in ("dev", "rel", "soft", "compact", "compact-nofeat", "nofeat")] + [J("dev", "history", detect="off", nshards=4)] +
                [J(c, "threads", nshards=8) for c in ("dev", "rel", "soft")] + [J("dev", "threads", detect="off", nshards=4)] +
                [J("dev", "firstuse", nshards=8), J("rel", "firstuse", nshards=8), J("dev", "firstuse", detect="off", nshards=4),
                 J("tsan", "threads", nshards=4, scale=0.05), J("tsan", "threads", detect="off", nshards=2, scale=0.05), J("tsan", "firstuse", nshards=4, scale=0.2),
                 J("tsan", "history", nshards=2, scale=0.2),
                 J("miri-x64", "threads", ["--no-shadow", "--filter", "aes::"], nshards=4, scale=0.02, timeout=3000),
                 J("miri-x64", "threads", ["--no-shadow", "--filter", "uznyechik"], nshards=2, scale=0.02, timeout=3000),
                 J("miri-s390x", "history", ["--sample-mod", "8"], nshards=8, scale=0.002, timeout=3000)],
    "rule": ("histories: random sequences (200..3000 ops) of construct / use (single, multi-block, all call shapes) / sibling-instance-with-same-key / replace / drop over "
             "pools of 2..8 live instances of mixed types, every result compared with the reference for (key,input), long-lived vs fresh instance; threads: 2..16 threads "
             "on shared instances with precomputed expectations and a measured overlap histogram; first use: fresh processes in which 2..16 threads released by a barrier "
             "construct and use AES types (real and ARMv8 shadow) and hazmat functions at once, with seeded delays injected inside CPU feature detection and the number of "
             "concurrent detections counted; layers: native, ThreadSanitizer, Miri; distinct_nontrivial = distinct (instance,key,input,position-in-history) cases"),
    "floors": [need_evals(20_000)],
    "assumptions": ["schedules are sampled; TSan/Miri see only races that occur in the trials run"],
}

# ---- C16
PROPS["C16"] = {
    "quick": [J("dev", "zeroize", nshards=8), J("rel", "zeroize", nshards=8), J("dev", "zeroize", detect="off", nshards=8),
              J("soft", "zeroize", ["--no-shadow"], nshards=4), J("compact", "zeroize", ["--no-shadow"], nshards=4),
              J("tf-nocipher", "tfmon")],
    "thorough": [J(c, "zeroize", nshards=16, scale=8.0) for c in ("dev", "rel", "devfast", "soft", "compact", "static-ni")] +
                [J("dev", "zeroize", detect="off", nshards=8), J("rel", "zeroize", detect="off", nshards=8),
                 J("compact-auto", "zeroize", detect="off", nshards=8), J("asan", "zeroize", nshards=8, scale=0.5), J("tf-nocipher", "tfmon"),
                 J("asan", "zeroize", detect="off", nshards=8, scale=0.5)],
    "rule": ("for every type and construction route (new, clone, after use, from Enc by value / by reference, clone of converted): instances for 8..60 keys "
             "(all-00, all-FF, class-generated, every key length) are built into a heap slot, snapshotted, dropped in place, snapshotted again; judged positions = bytes "
             "that are stable under two ambient fill patterns, differ between keys, and are live (flipping their low bit changes an encrypt/decrypt fingerprint); every "
             "judged position must read zero after drop; distinct_nontrivial = distinct (type,route,key)"),
    "floors": [need_types(150)],
    "assumptions": ["bytes the value never uses (padding, inactive union arm) are not judged: their content is ambient memory, not instance state",
                    "registers and stack temporaries of the key schedule are outside the instance's own storage"],
}

# ---- C17
PROPS["C17"] = {
    "quick": [J("dev", "hazmat", nshards=2), J("rel", "hazmat", nshards=2), J("dev", "hazmat", detect="off", nshards=2),
              J("soft", "hazmat", nshards=2), J("compact", "hazmat", nshards=2), J("asan", "hazmat", scale=0.2),
              J("miri-x64", "hazmat", ["--no-shadow"], nshards=2, scale=0.003, timeout=2400),
              J("miri-s390x", "hazmat", nshards=2, scale=0.001, timeout=2400)],
    "thorough": [J(c, "hazmat", nshards=16, scale=20.0) for c in ("dev", "rel", "soft", "compact", "static-ni")] +
                [J("dev", "hazmat", detect="off", nshards=8), J("compact-auto", "hazmat", detect="off", nshards=4), J("asan", "hazmat", nshards=4),
                 J("vg", "hazmat", scale=0.01, timeout=3000),
                 J("miri-x64", "hazmat", ["--no-shadow"], nshards=4, scale=0.0002, timeout=3000),
                 J("miri-i686", "hazmat", ["--no-shadow"], nshards=4, scale=0.0002, timeout=3000)],
    "rule": ("cases = (implementation, block, round key) from the class generator for cipher_round, equiv_inv_cipher_round, mix_columns, inv_mix_columns, and 8-tuples "
             "of distinct blocks and keys for the *_par forms; oracle: the byte-level FIPS-197 transformations of the reference model, mutual inverses, lane == single "
             "call, lane non-interference under a one-bit perturbation; implementations: real crate (NI, software via detect-off / force_soft / compact) and shadows "
             "(ARMv8 over the ISA model, fixslice32, fixslice32 compact); distinct_nontrivial = distinct cases with a random block or key"),
    "floors": [need_evals(10_000), need_types(4)],
    "assumptions": ["ARMv8 hazmat code runs over the software ISA model"],
}

# ---- C18
PROPS["C18"] = {
    "quick": [J("dev", "wblock", nshards=4), J("rel", "wblock", nshards=4), J("asan", "wblock", nshards=2, scale=0.5),
              J("miri-x64", "wblock", nshards=4, scale=0.001, timeout=2400, args=["--short"]),
              J("miri-s390x", "wblock", nshards=4, scale=0.001, timeout=2400, args=["--short"]),
              J("miri-i686", "wblock", nshards=4, scale=0.001, timeout=2400, args=["--short"])],
    "thorough": [J("dev", "wblock", nshards=8), J("rel", "wblock", nshards=8), J("devfast", "wblock", nshards=8), J("asan", "wblock", nshards=4),
                 J("miri-x64", "wblock", nshards=8, scale=0.001, timeout=3000, args=["--short"]),
                 J("miri-s390x", "wblock", nshards=8, scale=0.001, timeout=3000, args=["--short"]),
                 J("miri-i686", "wblock", nshards=8, scale=0.001, timeout=3000, args=["--short"])],
    "rule": ("every length 32..=600 (dense) and random lengths to 65536 with class-generated keys and data, both directions, against the STB 34.101.31 reference; "
             "inverse in both orders; every length 0..=31: error returned, buffer and 32-byte guards byte-identical; distinct_nontrivial = distinct (key,data,direction)"),
    "floors": [need_evals(2000)],
    "assumptions": ["reference pinned by the STB A.6/A.7 vectors (48, 47, 36 bytes)"],
}

# ---- C19
PROPS["C19"] = {
    "quick": [J("dev", "names"), J("rel", "names"), J("soft", "names"), J("dev", "names", detect="off"), J("compact", "names"),
              J("miri-s390x", "names", ["--sample-mod", "4"], nshards=4, scale=0.02, timeout=2400),
              J("miri-x64", "names", ["--no-shadow", "--filter", "aes::"], scale=0.02, timeout=2400)],
    "thorough": [J(c, "names", nshards=1, scale=8.0) for c in ("dev", "rel", "devfast", "soft", "compact", "static-ni")] + [J("dev", "names", detect="off", scale=8.0),
                 J("miri-s390x", "names", ["--sample-mod", "4"], nshards=4, scale=0.02, timeout=3000),
                 J("miri-x64", "names", ["--no-shadow", "--sample-mod", "4"], nshards=4, scale=0.02, timeout=3000)],
    "rule": ("for every type: Debug formatted over >=64 keys (structured + random, every key length) must be one identical string, contain no key bytes, and its "
             "head must be the type's own identifier or a public spelling of exactly that type (generic parameters matching the instantiation); AlgorithmName must "
             "mention the family and, in order, every numeric parameter of the type, and two different algorithms must not share a name; distinct_nontrivial = distinct (type,key)"),
    "floors": [need_types(60)],
    "assumptions": ["names are compared up to case and punctuation; Enc/Dec halves may carry their family's algorithm name"],
}

# ---- C20
def t_post(prop, reports):
    r = x_post(prop, reports)
    r["monitor"] = "profile-join"
    for v in r["violations"]:
        v["sig"] = v["sig"].replace("xconfig|", "total|", 1).replace("output differs between", "output differs between builds")
    return r


PROPS["C20"] = {
    "quick": [J("dev", "total", nshards=4), J("devfast", "total", nshards=4), J("rel", "total", nshards=4), J("soft", "total", nshards=4),
              J("compact", "total", nshards=4), J("dev", "total", detect="off", nshards=4),
              J("miri-x64", "total", ["--no-shadow", "--sample-mod", "32"], nshards=4, scale=0.002, timeout=2400)],
    "thorough": [J(c, "total", nshards=16) for c in ("dev", "devfast", "rel")] + [J("soft", "total", nshards=16), J("compact", "total", nshards=16),
                 J("devfast", "total", detect="off", nshards=16), J("asan", "total", nshards=4, scale=0.1),
                 J("miri-x64", "total", ["--no-shadow", "--sample-mod", "16"], nshards=16, scale=0.0002, timeout=3000),
                 J("miri-i686", "total", ["--no-shadow", "--sample-mod", "16"], nshards=16, scale=0.0002, timeout=3000),
                 J("miri-s390x", "total", ["--sample-mod", "16"], nshards=16, scale=0.0002, timeout=3000)],
    "post": t_post,
    "rule": ("every public type (all key lengths, Rc2 effective lengths, Threefish tweaks and u64 API, belt_block_raw, wide block on lengths 32..=331 + random) is driven "
             "through single-block and multi-block entry points under catch_unwind with keys and blocks aimed at the arithmetic (edge 16/32/64-bit words, all-00/FF, "
             "edge bytes, half-constant) in builds with overflow checks and debug assertions (dev, devfast = opt3+checks, soft and compact backends with checks) and "
             "without (rel); a panic is a violation; output digests are logged and the offline join requires checked and unchecked builds to agree; "
             "distinct_nontrivial = distinct (type,key,data,shape) cases with a random component plus distinct structured ones"),
    "floors": [need_types(150), need_evals(100_000)],
    "assumptions": ["aborts (SIGSEGV/SIGILL/SIGABRT) are caught by the parent as process death"],
}
