#!/usr/bin/env python3
"""gen_shadow.py - generate the "shadow crates" of DESIGN.md section 4.2.

    gen_shadow.py --repo /repo --out /verif/build/shadow [--with-validation]

From the CURRENT contents of <repo>/aes and <repo>/kuznyechik this regenerates

    aes_armv8    aes        as if target_arch="aarch64" (ARMv8 CE backend + runtime autodetect
                            with soft fallback), aes_force_soft=false, aes_compact=false
    aes_soft32   aes        as if target_pointer_width="32", aes_force_soft=true, aes_compact=false
    aes_soft32c  aes        same, aes_compact=true
    kuz_neon     kuznyechik as if target_arch="aarch64", target_feature="neon", no
                            kuznyechik_backend override (NEON backend)
    aes_soft64   (only with --with-validation) aes with aes_force_soft=true textually and nothing
                            else touched; compared once with a real RUSTFLAGS="--cfg aes_force_soft"
                            build to validate this generator

so that the aarch64-only / 32-bit-only sources compile and run natively on the x86-64 host, with
`core::arch::aarch64` replaced by the software model `arm_model`.

The tool is token-level and deliberately dumb. It does not understand Rust; it knows how to tell
code from comments and string literals, how to find the balanced `cfg(...)`, `cfg_attr(...)`,
`cfg!(...)` spans in code (the predicates of `cfg_if!` are ordinary `#[cfg(...)]` spans), and it
applies the rewrite tables below inside those spans. All rewrites preserve line numbers, so
compiler / sanitizer / Miri diagnostics of a shadow point at the same line of the repo file.

Rewrites
--------
 (1) inside cfg spans: per-shadow table CFG_RULES (predicate leaf -> `all()` = true / `any()` = false)
 (2) `use core::{arch::aarch64::*, a, b};`  ->  `use core::{a, b}; use arm_model::*;`
 (3) `core::arch::aarch64`                  ->  `arm_model`     (covers `use core::arch::aarch64::*;`)
 (4) `#[target_feature(enable = "..")]` attribute lines -> blank line (arm shadows, see below)
 (5) files of back ends that the specialised crate cannot reach are not copied (EXCLUDE table;
     every listed path must exist); the build then also fails if the selection logic went
     somewhere unexpected
 (6) Cargo.toml: package renamed, [lib] name set, `[target.'cfg(..)'.dependencies]` tables whose
     predicate became constant are merged into [dependencies] (true) or dropped (false),
     `arm_model` path dependency added (arm shadows), [dev-dependencies] / [lints] /
     [package.metadata] dropped, [features] kept; tests/ and benches/ are not copied.

target_feature attributes (rule 4)
----------------------------------
The repo marks every ARMv8 function `#[target_feature(enable = "aes")]` (Arm "aes" feature). On
x86-64 a feature of the same *name* exists (AES-NI) and "neon" does not exist at all. The model is
plain software and needs no ISA extension, so the generator blanks every
`#[target_feature(enable = "...")]` line in the arm shadows (none may survive). Keeping the "aes"
ones would compile, but would make the x86 AES-NI feature a precondition of calling pure software
(an error under Miri, which does not enable it by default, and UB on a host without AES-NI).
The run-time gate is untouched: `cpufeatures::new!(aes_intrinsics, "aes")` stays in the source; on
x86-64 that macro tests the x86 "aes" bit, which the harness controls through its cpufeatures stub.
`target_feature = "aes"` inside cfg predicates (static enablement) is rewritten to `any()` (false) so
the runtime-autodetect path is what the shadow means; note that cpufeatures' own
`cfg!(target_feature = "aes")` short cut lives in the cpufeatures crate and is out of reach of a
textual rewrite (do not build shadows with -Ctarget-feature=+aes / target-cpu=native, or stub it).

Failing closed
--------------
 * every rule with a pristine count > 0 in EXPECT must match at least once (a differing count is
   reported on stderr as SHADOW-GEN-NOTE but is not an error);
 * after rewriting, none of the FORBIDDEN tokens of the shadow may survive anywhere in the code
   (comments stripped; so also not in cfg predicates) of any emitted .rs file or of Cargo.toml;
 * unknown Cargo.toml sections, missing files, unbalanced parentheses, ... are errors.
Any failure prints `SHADOW-GEN-ERROR: ...` and exits with status 2 (never 1).

Output is deterministic (sorted walk, no time stamps). <out>/<name> is deleted and recreated.
All shadows are generated and checked in memory before anything is written; if any of them fails,
the directories of ALL shadows of the run are removed, so a stale shadow can never be compiled.
"""

import argparse
import os
import re
import shutil
import sys

try:
    import tomllib  # python >= 3.11; only used as a final sanity check
except Exception:  # pragma: no cover
    tomllib = None


class GenError(Exception):
    pass


TRUE, FALSE = "all()", "any()"

# ----------------------------------------------------------------------------------------------
# Rewrite tables
# ----------------------------------------------------------------------------------------------
# cfg leaf patterns (applied only inside cfg / cfg_attr / cfg! spans and Cargo target-cfg headers)
P_ARCH_A64 = r'\btarget_arch\s*=\s*"aarch64"'
P_ARCH_X86 = r'\btarget_arch\s*=\s*"x86(?:_64)?"'
P_ARCH_ANY = r'\btarget_arch\s*=\s*"[^"]*"'
P_TF_NEON = r'\btarget_feature\s*=\s*"neon"'
P_TF_SSE2 = r'\btarget_feature\s*=\s*"sse2"'
P_TF_AES = r'\btarget_feature\s*=\s*"aes"'
P_TF_ANY = r'\btarget_feature\s*=\s*"[^"]*"'
P_PW64 = r'\btarget_pointer_width\s*=\s*"64"'
P_PW32 = r'\btarget_pointer_width\s*=\s*"32"'
P_FORCE_SOFT = r'\baes_force_soft\b'
P_COMPACT = r'\baes_compact\b'
P_KUZ_BACKEND = r'\bkuznyechik_backend\s*=\s*"[^"]*"'

# (rule id, regex, replacement)
ARM_CFG = [
    ("arch=aarch64", P_ARCH_A64, TRUE),
    ("arch=x86*", P_ARCH_X86, FALSE),
    ("feature=neon", P_TF_NEON, TRUE),
    ("feature=sse2", P_TF_SSE2, FALSE),
    # static "aes" is NOT assumed: the shadow means "runtime autodetect"
    ("feature=aes", P_TF_AES, FALSE),
    # aarch64 is a 64-bit target
    ("ptrwidth=64", P_PW64, TRUE),
    ("ptrwidth=32", P_PW32, FALSE),
]


def soft32_cfg(compact):
    return [
        # a generic 32-bit target: neither aarch64 nor x86 (irrelevant under force_soft anyway)
        ("arch=*", P_ARCH_ANY, FALSE),
        ("feature=*", P_TF_ANY, FALSE),
        ("ptrwidth=64", P_PW64, FALSE),
        ("ptrwidth=32", P_PW32, TRUE),
        ("aes_force_soft", P_FORCE_SOFT, TRUE),
        ("aes_compact", P_COMPACT, TRUE if compact else FALSE),
    ]


ALL_TOKENS = [
    r"\btarget_arch\b",
    r"\btarget_pointer_width\b",
    r"\btarget_feature\b",  # also catches surviving #[target_feature(..)] attributes
    r"\bcore\s*::\s*arch\b",
    r"\barch\s*::\s*(?:aarch64|x86|x86_64)\b",
    r"\baes_force_soft\b",
    r"\baes_compact\b",
    r"\bkuznyechik_backend\b",
]

AES_SOFT32_EXCLUDE = [
    "src/ni.rs",
    "src/ni",
    "src/armv8.rs",
    "src/armv8",
    "src/autodetect.rs",
    "src/soft/fixslice64.rs",
]

SHADOWS = {
    "aes_armv8": {
        "crate": "aes",
        "arm": True,
        "cfg": ARM_CFG
        + [("aes_force_soft", P_FORCE_SOFT, FALSE), ("aes_compact", P_COMPACT, FALSE)],
        "exclude": ["src/ni.rs", "src/ni", "src/soft/fixslice32.rs"],
        "forbidden": ALL_TOKENS,
        "must_depend": ["cfg-if", "cipher", "zeroize", "cpufeatures", "arm_model"],
        "check_cfg": [],
    },
    "aes_soft32": {
        "crate": "aes",
        "arm": False,
        "cfg": soft32_cfg(False),
        "exclude": AES_SOFT32_EXCLUDE,
        "forbidden": ALL_TOKENS,
        "must_depend": ["cfg-if", "cipher", "zeroize"],
        "must_not_depend": ["cpufeatures"],
        "check_cfg": [],
    },
    "aes_soft32c": {
        "crate": "aes",
        "arm": False,
        "cfg": soft32_cfg(True),
        "exclude": AES_SOFT32_EXCLUDE,
        "forbidden": ALL_TOKENS,
        "must_depend": ["cfg-if", "cipher", "zeroize"],
        "must_not_depend": ["cpufeatures"],
        "check_cfg": [],
    },
    "kuz_neon": {
        "crate": "kuznyechik",
        "arm": True,
        "cfg": ARM_CFG + [("kuznyechik_backend=*", P_KUZ_BACKEND, FALSE)],
        "exclude": ["src/sse2", "src/big_soft", "src/compact_soft"],
        "forbidden": ALL_TOKENS,
        "must_depend": ["cfg-if", "cipher", "arm_model"],
        "check_cfg": [],
    },
}

VALIDATION_SHADOWS = {
    "aes_soft64": {
        "crate": "aes",
        "arm": False,
        "validation": True,
        "cfg": [("aes_force_soft", P_FORCE_SOFT, TRUE)],
        "exclude": [],
        "forbidden": [r"\baes_force_soft\b"],
        "must_depend": ["cfg-if", "cipher", "zeroize"],
        # cfg names this variant leaves alone and that must stay declared
        "check_cfg": ["cfg(aes_compact)"],
    },
}

# Non-cfg rules (ids); they are applied to arm shadows only.
R_USE_NESTED = "use core::{arch::aarch64::*,..}"
R_PATH = "core::arch::aarch64"
R_TF_ATTR = "#[target_feature(enable=..)]"
R_EXCLUDED = "excluded paths"
R_TARGET_DEPS = "Cargo [target.cfg.dependencies]"

# Match counts on the pristine tree (git e5e0656). A rule whose pristine count is > 0 must match
# at least once; a different count only produces a SHADOW-GEN-NOTE. Rules absent from a table
# (count 0 on the pristine tree) are optional.
EXPECT = {
    "aes_armv8": {
        "arch=aarch64": 7,
        "arch=x86*": 14,
        "feature=aes": 4,
        "ptrwidth=64": 2,
        "aes_force_soft": 8,
        "aes_compact": 28,
        R_USE_NESTED: 2,
        R_PATH: 2,
        R_TF_ATTR: 17,
        R_EXCLUDED: 3,
        R_TARGET_DEPS: 1,
    },
    "aes_soft32": {
        "arch=*": 18,
        "ptrwidth=64": 2,
        "aes_force_soft": 8,
        "aes_compact": 28,
        R_EXCLUDED: 6,
        R_TARGET_DEPS: 1,
    },
    "aes_soft32c": {
        "arch=*": 18,
        "ptrwidth=64": 2,
        "aes_force_soft": 8,
        "aes_compact": 28,
        R_EXCLUDED: 6,
        R_TARGET_DEPS: 1,
    },
    "kuz_neon": {
        "arch=aarch64": 1,
        "arch=x86*": 2,
        "feature=neon": 1,
        "feature=sse2": 1,
        "kuznyechik_backend=*": 5,
        R_PATH: 1,
        R_EXCLUDED: 3,
    },
    "aes_soft64": {
        "aes_force_soft": 8,
    },
}

# ----------------------------------------------------------------------------------------------
# A tiny Rust lexer: classify every character as code / comment / string
# ----------------------------------------------------------------------------------------------
CODE, COMMENT, STRING = 0, 1, 2


def _is_ident(ch):
    return ch.isalnum() or ch == "_"


RAW_START = re.compile(r'r(#*)"')


def _raw_prefix_ok(text, i):
    """`r` at i starts a token (possibly after a b / c prefix), i.e. is not inside an identifier"""
    if i == 0 or not _is_ident(text[i - 1]):
        return True
    return text[i - 1] in "bc" and (i == 1 or not _is_ident(text[i - 2]))


def lex_rust(text, path):
    n = len(text)
    kind = [CODE] * n
    i = 0
    while i < n:
        c = text[i]
        if c == "/" and text.startswith("//", i):
            j = text.find("\n", i)
            j = n if j < 0 else j
            for k in range(i, j):
                kind[k] = COMMENT
            i = j
        elif c == "/" and text.startswith("/*", i):
            depth, j = 1, i + 2
            while j < n and depth:
                if text.startswith("/*", j):
                    depth, j = depth + 1, j + 2
                elif text.startswith("*/", j):
                    depth, j = depth - 1, j + 2
                else:
                    j += 1
            if depth:
                raise GenError(f"{path}: unterminated block comment")
            for k in range(i, j):
                kind[k] = COMMENT
            i = j
        elif c == '"':
            j = i + 1
            while j < n and text[j] != '"':
                j += 2 if text[j] == "\\" else 1
            if j >= n:
                raise GenError(f"{path}: unterminated string literal")
            for k in range(i, j + 1):
                kind[k] = STRING
            i = j + 1
        elif c == "r" and RAW_START.match(text, i) and _raw_prefix_ok(text, i):
            # raw string r"..", r#".."#, br"..", cr".."
            m = RAW_START.match(text, i)
            close = '"' + m.group(1)
            j = text.find(close, m.end())
            if j < 0:
                raise GenError(f"{path}: unterminated raw string")
            j += len(close)
            for k in range(i, j):
                kind[k] = STRING
            i = j
        elif c == "'":
            if i + 1 < n and text[i + 1] == "\\":
                j = text.find("'", i + 3 if text.startswith("\\'", i + 1) else i + 2)
                if j < 0:
                    raise GenError(f"{path}: unterminated char literal")
                for k in range(i, j + 1):
                    kind[k] = STRING
                i = j + 1
            elif i + 2 < n and text[i + 2] == "'":
                for k in range(i, i + 3):
                    kind[k] = STRING
                i += 3
            else:
                i += 1  # lifetime / label
        else:
            i += 1
    return kind


def lex_toml(text, path):
    """Comments (#..) vs strings vs the rest, enough for Cargo.toml."""
    n = len(text)
    kind = [CODE] * n
    i = 0
    while i < n:
        c = text[i]
        if c == "#":
            j = text.find("\n", i)
            j = n if j < 0 else j
            for k in range(i, j):
                kind[k] = COMMENT
            i = j
        elif c in "\"'":
            if text.startswith(c * 3, i):
                raise GenError(f"{path}: multi-line TOML strings are not supported")
            j = i + 1
            while j < n and text[j] != c and text[j] != "\n":
                j += 2 if (c == '"' and text[j] == "\\") else 1
            if j >= n or text[j] != c:
                raise GenError(f"{path}: unterminated TOML string")
            for k in range(i, j + 1):
                kind[k] = STRING
            i = j + 1
        else:
            i += 1
    return kind


def strip_comments(text, kind):
    return "".join(ch if (k != COMMENT or ch == "\n") else " " for ch, k in zip(text, kind))


# ----------------------------------------------------------------------------------------------
# cfg spans
# ----------------------------------------------------------------------------------------------
CFG_START = re.compile(r"(?<![A-Za-z0-9_])cfg(?:_attr)?\s*!?\s*\(")


def balanced_end(text, kind, open_idx, path):
    """index one past the ')' matching the '(' at open_idx (parens in strings/comments ignored)"""
    depth = 0
    for j in range(open_idx, len(text)):
        if kind is not None and kind[j] != CODE:
            continue
        if text[j] == "(":
            depth += 1
        elif text[j] == ")":
            depth -= 1
            if depth == 0:
                return j + 1
    raise GenError(f"{path}: unbalanced parentheses in cfg starting at offset {open_idx}")


def cfg_spans(text, kind, path):
    spans, pos = [], 0
    for m in CFG_START.finditer(text):
        if m.start() < pos or kind[m.start()] != CODE:
            continue
        end = balanced_end(text, kind, m.end() - 1, path)
        spans.append((m.end() - 1, end))
        pos = end
    return spans


def apply_cfg_rules(span_text, rules, counts):
    for rid, pat, repl in rules:
        span_text, k = re.subn(pat, repl, span_text)
        counts[rid] = counts.get(rid, 0) + k
    return span_text


def rewrite_cfg(text, kind, rules, counts, path):
    out, pos = [], 0
    for (a, b) in cfg_spans(text, kind, path):
        out.append(text[pos:a])
        out.append(apply_cfg_rules(text[a:b], rules, counts))
        pos = b
    out.append(text[pos:])
    return "".join(out)


# ----------------------------------------------------------------------------------------------
# non-cfg rewrites (arm shadows)
# ----------------------------------------------------------------------------------------------
USE_CORE_NESTED = re.compile(r"\buse\s+core\s*::\s*\{([^{};]*)\}\s*;")
ARCH_ITEM = re.compile(r"^arch\s*::\s*aarch64\s*::\s*\*$")
CORE_ARCH_A64 = re.compile(r"\bcore\s*::\s*arch\s*::\s*aarch64\b")
TF_ATTR_LINE = re.compile(r'^[ \t]*#\[\s*target_feature\s*\(\s*enable\s*=\s*"[^"]*"\s*\)\s*\][ \t]*$',
                          re.M)


def sub_code(regex, fn, text, path):
    """regex substitution restricted to matches that start in code; returns (text, n)"""
    kind = lex_rust(text, path)
    out, pos, n = [], 0, 0
    for m in regex.finditer(text):
        if kind[m.start()] != CODE:
            continue
        r = fn(m)
        if r is None:
            continue
        out.append(text[pos:m.start()])
        out.append(r)
        pos = m.end()
        n += 1
    out.append(text[pos:])
    return "".join(out), n


def rewrite_arm(text, counts, path):
    def nested(m):
        items = [x.strip() for x in m.group(1).split(",") if x.strip()]
        keep = [x for x in items if not ARCH_ITEM.match(x)]
        if len(keep) == len(items):
            return None
        if "\n" in m.group(0):
            raise GenError(f"{path}: multi-line `use core::{{..arch::aarch64..}}` not supported")
        head = ("use core::{" + ", ".join(keep) + "}; ") if keep else ""
        return head + "use arm_model::*;"

    text, k = sub_code(USE_CORE_NESTED, nested, text, path)
    counts[R_USE_NESTED] = counts.get(R_USE_NESTED, 0) + k
    text, k = sub_code(CORE_ARCH_A64, lambda m: "arm_model", text, path)
    counts[R_PATH] = counts.get(R_PATH, 0) + k
    # blank the line but keep its newline -> line numbers are preserved
    text, k = sub_code(TF_ATTR_LINE, lambda m: "", text, path)
    counts[R_TF_ATTR] = counts.get(R_TF_ATTR, 0) + k
    return text


def check_residue(text, kind, forbidden, path):
    code = strip_comments(text, kind)
    for pat in forbidden:
        m = re.search(pat, code)
        if m:
            line = code.count("\n", 0, m.start()) + 1
            raise GenError(f"{path}:{line}: unspecialised token `{m.group(0)}` survives "
                           f"the rewrite")


# ----------------------------------------------------------------------------------------------
# Cargo.toml
# ----------------------------------------------------------------------------------------------
HEADER = re.compile(r"^\s*(\[\[?)\s*(.*?)\s*(\]\]?)\s*(?:#.*)?$")
TARGET_DEPS = re.compile(r"^target\.(['\"])(cfg\(.*\))\1\.dependencies$")
CONST_PRED = re.compile(r"^[\s(),]*(?:(?:all|any|not)[\s(),]*)*$")


def eval_pred(s):
    """evaluate a predicate made only of all()/any()/not()"""
    toks = re.findall(r"all|any|not|\(|\)|,", s)
    if "".join(toks) != re.sub(r"\s+", "", s):
        raise GenError(f"cannot evaluate cfg predicate `{s}`")
    pos = 0

    def parse():
        nonlocal pos
        op = toks[pos]
        if op not in ("all", "any", "not") or toks[pos + 1] != "(":
            raise GenError(f"cannot evaluate cfg predicate `{s}`")
        pos += 2
        args = []
        while toks[pos] != ")":
            args.append(parse())
            if toks[pos] == ",":
                pos += 1
        pos += 1
        if op == "all":
            return all(args)
        if op == "any":
            return any(args)
        if len(args) != 1:
            raise GenError(f"not() needs one argument in `{s}`")
        return not args[0]

    try:
        v = parse()
    except IndexError:
        raise GenError(f"cannot evaluate cfg predicate `{s}`")
    if pos != len(toks):
        raise GenError(f"trailing tokens in cfg predicate `{s}`")
    return v


def split_sections(text):
    """-> [(header or None, [body lines])]; array continuation lines never start with '['"""
    sections = [(None, [])]
    for line in text.split("\n"):
        m = HEADER.match(line)
        if m and not line.startswith((" ", "\t")):
            if (m.group(1), m.group(3)) not in (("[", "]"), ("[[", "]]")):
                raise GenError(f"Cargo.toml: malformed header `{line}`")
            sections.append(((m.group(1), m.group(2)), []))
        else:
            sections[-1][1].append(line)
    return sections


def trim(lines):
    lines = list(lines)
    while lines and not lines[-1].strip():
        lines.pop()
    while lines and not lines[0].strip():
        lines.pop(0)
    return lines


def rewrite_cargo_toml(text, name, spec, counts, arm_model_path, path):
    lex_toml(text, path)  # rejects what the splitter cannot handle
    sections = split_sections(text)
    if any(l.strip() for l in sections[0][1] if not l.strip().startswith("#")):
        raise GenError(f"{path}: content before the first section")
    package, deps, features = None, [], None
    for (hdr, body) in sections[1:]:
        brackets, title = hdr
        if brackets == "[[":
            raise GenError(f"{path}: unexpected array-of-tables [[{title}]]")
        if title == "package":
            package = body
        elif title == "dependencies":
            deps += trim(body)
        elif title == "features":
            features = body
        elif title == "dev-dependencies" or title.startswith("package.metadata") \
                or title == "lints" or title.startswith("lints."):
            continue
        elif TARGET_DEPS.match(title):
            pred = TARGET_DEPS.match(title).group(2)
            # `pred` is "cfg( ... )": rewrite the leaves exactly as in a Rust cfg span
            new = apply_cfg_rules(pred, spec["cfg"], counts)
            inner = new[len("cfg"):]
            if CONST_PRED.match(inner):
                v = eval_pred("all" + inner)
                counts[R_TARGET_DEPS] = counts.get(R_TARGET_DEPS, 0) + 1
                if v:
                    deps += trim(body)
            elif spec.get("validation"):
                deps_keep = "[target.'" + new + "'.dependencies]"
                deps.append(None)  # marker: emitted after [dependencies]
                deps.append((deps_keep, trim(body)))
            else:
                raise GenError(f"{path}: target predicate `{pred}` is not constant after "
                               f"specialisation: `{new}`")
        else:
            raise GenError(f"{path}: unknown Cargo.toml section [{title}]")
    if package is None:
        raise GenError(f"{path}: no [package] section")

    out = [f"# GENERATED by tools/gen_shadow.py from <repo>/{spec['crate']} - do not edit",
           "[package]"]
    renamed = 0
    for line in trim(package):
        if re.match(r'^name\s*=\s*"' + re.escape(spec["crate"]) + r'"\s*$', line):
            out.append(f'name = "{name}"')
            renamed += 1
        elif re.match(r"^(readme|documentation|publish)\s*=", line):
            continue
        else:
            out.append(line)
    if renamed != 1:
        raise GenError(f"{path}: expected exactly one `name = \"{spec['crate']}\"` line")
    out += ["publish = false", "", "[lib]", f'name = "{name}"', 'path = "src/lib.rs"', "",
            "[dependencies]"]
    extra = []
    it = iter(deps)
    for d in it:
        if d is None:
            extra.append(next(it))
        else:
            out.append(d)
    if spec["arm"]:
        out.append(f'arm_model = {{ path = "{arm_model_path}" }}')
    for (hdr, body) in extra:
        out += ["", hdr] + body
    if features is not None:
        out += ["", "[features]"] + trim(features)
    if spec["check_cfg"]:
        out += ["", "[lints.rust.unexpected_cfgs]", 'level = "warn"',
                "check-cfg = [" + ", ".join(f'"{c}"' for c in spec["check_cfg"]) + "]"]
    result = "\n".join(out) + "\n"

    check_residue(result, lex_toml(result, path), spec["forbidden"], path + " (generated)")
    if tomllib is not None:
        try:
            doc = tomllib.loads(result)
        except Exception as e:
            raise GenError(f"{path}: generated Cargo.toml does not parse: {e}")
        if doc["package"]["name"] != name or doc["lib"]["name"] != name:
            raise GenError(f"{path}: generated package/lib name is wrong")
        have = doc.get("dependencies", {})
        for d in spec.get("must_depend", []):
            if d not in have:
                raise GenError(f"{path}: dependency `{d}` missing from the generated manifest")
        for d in spec.get("must_not_depend", []):
            if d in have:
                raise GenError(f"{path}: dependency `{d}` unexpectedly present")
        for section in doc:
            if section not in ("package", "lib", "dependencies", "features", "lints", "target"):
                raise GenError(f"{path}: unexpected section `{section}` in generated manifest")
    return result


# ----------------------------------------------------------------------------------------------
# driver
# ----------------------------------------------------------------------------------------------
def list_sources(crate_dir):
    src = os.path.join(crate_dir, "src")
    if not os.path.isdir(src):
        raise GenError(f"{src}: no such directory")
    files = []
    for root, dirs, names in os.walk(src):
        dirs.sort()
        for nm in sorted(names):
            full = os.path.join(root, nm)
            files.append(os.path.relpath(full, crate_dir).replace(os.sep, "/"))
    return sorted(files)


def generate(name, spec, repo, arm_model_path):
    crate_dir = os.path.join(repo, spec["crate"])
    manifest = os.path.join(crate_dir, "Cargo.toml")
    if not os.path.isfile(manifest):
        raise GenError(f"{manifest}: no such file")
    counts = {}

    # (5) exclusions: each listed path must exist
    for ex in spec["exclude"]:
        if not os.path.exists(os.path.join(crate_dir, ex)):
            raise GenError(f"{name}: excluded path {spec['crate']}/{ex} does not exist "
                           f"(repo layout changed)")
        counts[R_EXCLUDED] = counts.get(R_EXCLUDED, 0) + 1

    def excluded(rel):
        return any(rel == ex or rel.startswith(ex + "/") for ex in spec["exclude"])

    outputs = {}
    for rel in list_sources(crate_dir):
        if excluded(rel):
            continue
        full = os.path.join(crate_dir, rel)
        if not rel.endswith(".rs"):
            raise GenError(f"{name}: unexpected non-Rust file {spec['crate']}/{rel} under src/")
        with open(full, encoding="utf-8") as f:
            text = f.read()
        text = rewrite_cfg(text, lex_rust(text, full), spec["cfg"], counts, full)
        if spec["arm"]:
            text = rewrite_arm(text, counts, full)
        check_residue(text, lex_rust(text, full), spec["forbidden"], f"{name}/{rel}")
        outputs[rel] = text

    with open(manifest, encoding="utf-8") as f:
        outputs["Cargo.toml"] = rewrite_cargo_toml(f.read(), name, spec, counts,
                                                   arm_model_path, manifest)
    if "src/lib.rs" not in outputs:
        raise GenError(f"{name}: src/lib.rs missing")

    # fail closed on rules that no longer match
    notes = []
    for rid, want in sorted(EXPECT[name].items()):
        got = counts.get(rid, 0)
        if want > 0 and got < 1:
            raise GenError(f"{name}: rewrite rule `{rid}` matched nowhere "
                           f"(pristine tree: {want} matches)")
        if got != want:
            notes.append(f"{rid}: {got} (pristine {want})")
    for rid, got in sorted(counts.items()):
        if got and rid not in EXPECT[name]:
            notes.append(f"{rid}: {got} (pristine 0)")

    total = sum(counts.values())
    detail = " ".join(f"[{rid}]={counts[rid]}" for rid in sorted(counts) if counts[rid])
    summary = f"shadow {name}: from={spec['crate']} files={len(outputs)} rewrites={total} {detail}"
    return outputs, summary, notes


def remove_tree(dest):
    if os.path.lexists(dest):
        if os.path.isdir(dest) and not os.path.islink(dest):
            shutil.rmtree(dest)
        else:
            os.remove(dest)


def write_tree(dest, outputs):
    remove_tree(dest)
    for rel in sorted(outputs):
        p = os.path.join(dest, rel)
        os.makedirs(os.path.dirname(p), exist_ok=True)
        with open(p, "w", encoding="utf-8", newline="") as f:
            f.write(outputs[rel])


def main(argv):
    ap = argparse.ArgumentParser(description="generate the shadow crates (DESIGN.md 4.2)")
    ap.add_argument("--repo", required=True)
    ap.add_argument("--out", required=True)
    ap.add_argument("--arm-model", default="/verif/harness/arm_model",
                    help="path written into the arm_model dependency of the arm shadows")
    ap.add_argument("--with-validation", action="store_true",
                    help="also generate the validation-only shadow aes_soft64")
    ap.add_argument("--only", action="append", default=None, help=argparse.SUPPRESS)
    args = ap.parse_args(argv)

    shadows = dict(SHADOWS)
    if args.with_validation:
        shadows.update(VALIDATION_SHADOWS)
    if not os.path.isdir(args.repo):
        raise GenError(f"{args.repo}: no such directory")
    if not os.path.isfile(os.path.join(args.arm_model, "Cargo.toml")):
        raise GenError(f"{args.arm_model}: arm_model crate not found")
    out_root = os.path.abspath(args.out)
    os.makedirs(out_root, exist_ok=True)
    names = [n for n in shadows if not args.only or n in args.only]  # insertion order
    # Two phases: everything is generated and checked in memory first. If any shadow fails,
    # every shadow directory of this run is removed, so a stale tree can never be compiled.
    try:
        results = [(n, generate(n, shadows[n], os.path.abspath(args.repo), args.arm_model))
                   for n in names]
        for n, (outputs, _, _) in results:
            write_tree(os.path.join(out_root, n), outputs)
    except BaseException:
        for n in names:
            try:
                remove_tree(os.path.join(out_root, n))
            except OSError:
                pass
        raise
    for n, (_, summary, notes) in results:
        print(summary)
        for nt in notes:
            print(f"SHADOW-GEN-NOTE: {n}: match count differs from the pristine tree: {nt}",
                  file=sys.stderr)
    return 0


if __name__ == "__main__":
    try:
        sys.exit(main(sys.argv[1:]))
    except GenError as e:
        print(f"SHADOW-GEN-ERROR: {e}", file=sys.stderr)
        sys.exit(2)
    except SystemExit as e:
        # argparse exits with 2 on usage errors already; map anything else non-zero to 2
        code = e.code if isinstance(e.code, int) else 2
        if code not in (0, 2):
            print(f"SHADOW-GEN-ERROR: exit {e.code}", file=sys.stderr)
            code = 2
        sys.exit(code)
    except BaseException as e:  # never exit 1
        print(f"SHADOW-GEN-ERROR: internal error: {type(e).__name__}: {e}", file=sys.stderr)
        sys.exit(2)
