#!/usr/bin/env python3
"""Evaluate one seeded defect (not part of the registered checks).

  mutant_eval.py /tmp/mut_C05/2 [--props C05,C01] [--tier quick] [--keep-as C05-2] [--skip-verify]

1. verify in the scratch worktree named in the mutant's meta.json (or /tmp/wt_<prop>): patch applies, workspace test suite
   passes with it, demonstration fails with it and passes without it;
2. apply the patch to /repo, run ./check <prop> for each requested property, undo the patch (git checkout -- .) no matter what;
3. print a summary and, with --keep-as, copy patch + demo + meta into /verif/seeded/<name>/ with the results.
"""
import json
import os
import shutil
import subprocess
import sys
import time

ROOT = os.path.dirname(os.path.dirname(os.path.abspath(__file__)))


def sh(cmd, cwd=None, timeout=3600, env=None):
    e = dict(os.environ)
    e.update({"CARGO_NET_OFFLINE": "true"})
    if env:
        e.update(env)
    r = subprocess.run(cmd, shell=True, cwd=cwd, capture_output=True, text=True, timeout=timeout, env=e)
    return r.returncode, (r.stdout + r.stderr)


def main():
    a = sys.argv[1:]
    mdir = a[0].rstrip("/")
    meta = json.load(open(os.path.join(mdir, "meta.json")))
    prop = meta.get("property", "C00")
    props = [prop]
    tier = "quick"
    keep = None
    skip_verify = "--skip-verify" in a
    if "--props" in a:
        props = a[a.index("--props") + 1].split(",")
    if "--tier" in a:
        tier = a[a.index("--tier") + 1]
    if "--keep-as" in a:
        keep = a[a.index("--keep-as") + 1]
    wt = "/tmp/wt_" + prop
    patch = os.path.join(mdir, "patch.diff")
    res = {"mutant": mdir, "property": prop, "verify": {}, "checks": {}}
    if not skip_verify:
        sh("git checkout -- . && git clean -fdq -e target", cwd=wt)
        rc, out = sh("git apply --check %s" % patch, cwd=wt)
        res["verify"]["applies"] = rc == 0
        if rc != 0:
            print(json.dumps(res, indent=1))
            print(out[-1500:])
            return 1
        demo = meta.get("demo_cmd", "")
        env = {"CARGO_TARGET_DIR": wt + "/target"}
        # without the patch
        rc0, out0 = sh(demo, cwd=wt, env=env, timeout=3600)
        res["verify"]["demo_passes_without_patch"] = rc0 == 0
        sh("git checkout -- . && git clean -fdq -e target", cwd=wt)
        sh("git apply %s" % patch, cwd=wt)
        rc1, out1 = sh(demo, cwd=wt, env=env, timeout=3600)
        res["verify"]["demo_fails_with_patch"] = rc1 != 0
        # the demo may have placed files into the worktree; the suite must pass with the patch alone
        sh("git clean -fdq -e target", cwd=wt)
        rc2, out2 = sh("cargo test --workspace --no-fail-fast --offline 2>&1 | grep -E '^test result|FAILED|failed|error' ", cwd=wt, env=env, timeout=3600)
        passed = sum(int(l.split("ok. ")[1].split(" passed")[0]) for l in out2.splitlines() if l.startswith("test result: ok."))
        failed = [l for l in out2.splitlines() if "FAILED" in l or "error" in l]
        res["verify"]["suite_passed_tests"] = passed
        res["verify"]["suite_failures"] = failed[:5]
        sh("git checkout -- . && git clean -fdq -e target", cwd=wt)
        if rc0 != 0:
            print("demo without patch output tail:\n" + out0[-1200:])
        if rc1 == 0:
            print("demo with patch output tail:\n" + out1[-1200:])
    # run the checks against /repo with the patch
    rc, out = sh("git status --porcelain", cwd="/repo")
    if out.strip():
        print("refusing: /repo is not clean:\n" + out)
        return 2
    try:
        rc, out = sh("git apply %s" % patch, cwd="/repo")
        if rc != 0:
            print("patch does not apply to /repo: " + out[-800:])
            return 2
        for p in props:
            t0 = time.time()
            rc, out = sh("./check %s --tier %s" % (p, tier), cwd=ROOT, timeout=7200)
            lines = [l for l in out.splitlines() if l.startswith(("VIOLATION", "KNOWN-FINDING", "INCONCLUSIVE", "OK "))]
            sigs = [l.strip() for l in out.splitlines() if l.strip().startswith("violation:")]
            res["checks"][p] = {"tier": tier, "exit": rc, "lines": lines[:6], "signatures": sigs[:8], "wall_s": round(time.time() - t0, 1)}
    finally:
        sh("git checkout -- .", cwd="/repo")
        rc, out = sh("git status --porcelain", cwd="/repo")
        if out.strip():
            print("WARNING /repo not clean after undo: " + out)
    print(json.dumps(res, indent=1))
    if keep:
        d = os.path.join(ROOT, "seeded", keep)
        os.makedirs(d, exist_ok=True)
        shutil.copy(patch, os.path.join(d, "patch.diff"))
        for f in os.listdir(mdir):
            if f in ("patch.diff", "meta.json", "property.json"):
                continue
            src = os.path.join(mdir, f)
            if os.path.isdir(src):
                shutil.copytree(src, os.path.join(d, f), dirs_exist_ok=True, ignore=shutil.ignore_patterns("target", "Cargo.lock"))
            else:
                shutil.copy(src, os.path.join(d, f))
        meta_out = dict(meta)
        meta_out["evaluation"] = res
        json.dump(meta_out, open(os.path.join(d, "meta.json"), "w"), indent=1)
    return 0


if __name__ == "__main__":
    sys.exit(main())
