#!/usr/bin/env python3
"""Print the catch matrix of the kept seeded defects (markdown) from seeded/*/meta.json."""
import glob
import json
import os

ROOT = os.path.dirname(os.path.dirname(os.path.abspath(__file__)))
rows = []
for d in sorted(glob.glob(os.path.join(ROOT, "seeded", "*", "meta.json"))):
    name = os.path.basename(os.path.dirname(d))
    m = json.load(open(d))
    ev = m.get("evaluation", {})
    runs = m.get("runs") or []
    if ev and not runs:
        runs = [ev]
    caught = []
    for r in runs:
        for p, c in r.get("checks", {}).items():
            sig = (c.get("signatures") or [""])[0].replace("violation: ", "")
            caught.append("%s %s: %s%s" % (p, c.get("tier"), "CAUGHT" if c.get("exit") == 1 else ("missed" if c.get("exit") == 0 else "inconclusive"),
                                           (" (" + sig[:110] + ")") if sig else ""))
    summ = (m.get("summary") or "").replace("\n", " ").replace("|", "/")
    needs = str(m.get("needs") or "").replace("\n", " ").replace("|", "/")
    rows.append("| %s | %s | %s | %s |" % (name, summ[:230], needs[:200], "; ".join(caught)))
print("| id | change | needs | result |")
print("|----|--------|-------|--------|")
print("\n".join(rows))
