//! Minimal FFI to the OpenSSL 3 libcrypto (EVP, ECB single blocks) and libxcrypt `crypt()`
//! present in the image. Foreign implementations used as second oracles. Never called under
//! Miri (Miri cannot cross FFI): every entry point returns `None` there.
use std::ffi::{c_char, c_int, c_void, CStr, CString};
use std::sync::{Mutex, Once};

#[cfg(not(miri))]
#[link(name = "crypto")]
extern "C" {
    fn OSSL_PROVIDER_load(ctx: *mut c_void, name: *const c_char) -> *mut c_void;
    fn EVP_CIPHER_fetch(ctx: *mut c_void, alg: *const c_char, props: *const c_char) -> *mut c_void;
    fn EVP_CIPHER_free(c: *mut c_void);
    fn EVP_CIPHER_CTX_new() -> *mut c_void;
    fn EVP_CIPHER_CTX_free(c: *mut c_void);
    fn EVP_CipherInit_ex(ctx: *mut c_void, cipher: *const c_void, eng: *mut c_void, key: *const u8, iv: *const u8, enc: c_int) -> c_int;
    fn EVP_CIPHER_CTX_set_key_length(ctx: *mut c_void, keylen: c_int) -> c_int;
    fn EVP_CIPHER_CTX_set_padding(ctx: *mut c_void, pad: c_int) -> c_int;
    fn EVP_CIPHER_CTX_ctrl(ctx: *mut c_void, ty: c_int, arg: c_int, ptr: *mut c_void) -> c_int;
    fn EVP_CipherUpdate(ctx: *mut c_void, out: *mut u8, outl: *mut c_int, inp: *const u8, inl: c_int) -> c_int;
}
#[cfg(not(miri))]
#[link(name = "crypt")]
extern "C" {
    fn crypt(key: *const c_char, salt: *const c_char) -> *mut c_char;
}

static INIT: Once = Once::new();
static mut AVAILABLE: bool = false;
static CRYPT_LOCK: Mutex<()> = Mutex::new(());

/// True when libcrypto answered with both providers.
pub fn available() -> bool {
    #[cfg(miri)]
    {
        return false;
    }
    #[cfg(not(miri))]
    unsafe {
        INIT.call_once(|| {
            let d = OSSL_PROVIDER_load(std::ptr::null_mut(), c"default".as_ptr());
            let l = OSSL_PROVIDER_load(std::ptr::null_mut(), c"legacy".as_ptr());
            AVAILABLE = !d.is_null() && !l.is_null();
        });
        AVAILABLE
    }
}

/// A keyed EVP ECB context (no padding). `rc2_bits` sets RC2's effective key bits.
pub struct Evp {
    ctx: *mut c_void,
    cipher: *mut c_void,
}
unsafe impl Send for Evp {}

impl Evp {
    pub fn new(alg: &str, key: &[u8], enc: bool, rc2_bits: Option<u32>) -> Option<Evp> {
        #[cfg(miri)]
        {
            let _ = (alg, key, enc, rc2_bits);
            return None;
        }
        #[cfg(not(miri))]
        unsafe {
            if !available() {
                return None;
            }
            let name = CString::new(alg).ok()?;
            let cipher = EVP_CIPHER_fetch(std::ptr::null_mut(), name.as_ptr(), std::ptr::null());
            if cipher.is_null() {
                return None;
            }
            let ctx = EVP_CIPHER_CTX_new();
            let e = Evp { ctx, cipher };
            let encf = if enc { 1 } else { 0 };
            if EVP_CipherInit_ex(ctx, cipher, std::ptr::null_mut(), std::ptr::null(), std::ptr::null(), encf) != 1 {
                return None;
            }
            if EVP_CIPHER_CTX_set_key_length(ctx, key.len() as c_int) != 1 {
                return None;
            }
            if let Some(bits) = rc2_bits {
                // EVP_CTRL_SET_RC2_KEY_BITS = 0x3
                if EVP_CIPHER_CTX_ctrl(ctx, 3, bits as c_int, std::ptr::null_mut()) <= 0 {
                    return None;
                }
            }
            if EVP_CipherInit_ex(ctx, std::ptr::null(), std::ptr::null_mut(), key.as_ptr(), std::ptr::null(), encf) != 1 {
                return None;
            }
            EVP_CIPHER_CTX_set_padding(ctx, 0);
            Some(e)
        }
    }
    /// Process whole blocks (ECB, so each block independently); returns the output.
    pub fn update(&mut self, data: &[u8]) -> Option<Vec<u8>> {
        #[cfg(miri)]
        {
            let _ = data;
            return None;
        }
        #[cfg(not(miri))]
        unsafe {
            let mut out = vec![0u8; data.len() + 32];
            let mut outl: c_int = 0;
            if EVP_CipherUpdate(self.ctx, out.as_mut_ptr(), &mut outl, data.as_ptr(), data.len() as c_int) != 1 {
                return None;
            }
            if outl as usize != data.len() {
                return None;
            }
            out.truncate(outl as usize);
            Some(out)
        }
    }
}
impl Drop for Evp {
    fn drop(&mut self) {
        #[cfg(not(miri))]
        unsafe {
            EVP_CIPHER_CTX_free(self.ctx);
            EVP_CIPHER_free(self.cipher);
        }
    }
}

/// One-shot ECB of whole blocks.
pub fn ecb(alg: &str, key: &[u8], enc: bool, data: &[u8]) -> Option<Vec<u8>> {
    Evp::new(alg, key, enc, None)?.update(data)
}
pub fn rc2_ecb(key: &[u8], bits: u32, enc: bool, data: &[u8]) -> Option<Vec<u8>> {
    Evp::new("RC2-ECB", key, enc, Some(bits))?.update(data)
}

/// EVP algorithm name for a family and key length, if libcrypto has one.
pub fn evp_name(family: &str, keylen: usize) -> Option<String> {
    Some(match family {
        "aes" => format!("AES-{}-ECB", keylen * 8),
        "aria" => format!("ARIA-{}-ECB", keylen * 8),
        "camellia" => format!("CAMELLIA-{}-ECB", keylen * 8),
        "sm4" => "SM4-ECB".into(),
        "des" => "DES-ECB".into(),
        "tdes-ede2" => "DES-EDE-ECB".into(),
        "tdes-ede3" => "DES-EDE3-ECB".into(),
        "blowfish" => "BF-ECB".into(),
        "cast5" => "CAST5-ECB".into(),
        _ => return None,
    })
}

/// libxcrypt `crypt(password, setting)`; `password` must not contain NUL.
pub fn crypt_hash(password: &[u8], setting: &str) -> Option<String> {
    #[cfg(miri)]
    {
        let _ = (password, setting);
        return None;
    }
    #[cfg(not(miri))]
    unsafe {
        let _g = CRYPT_LOCK.lock().unwrap();
        let p = CString::new(password).ok()?;
        let s = CString::new(setting).ok()?;
        let r = crypt(p.as_ptr(), s.as_ptr());
        if r.is_null() {
            return None;
        }
        let out = CStr::from_ptr(r).to_str().ok()?.to_string();
        if out.starts_with('*') {
            return None;
        }
        Some(out)
    }
}

#[cfg(test)]
mod tests {
    use super::*;
    fn hx(s: &str) -> Vec<u8> {
        (0..s.len() / 2).map(|i| u8::from_str_radix(&s[2 * i..2 * i + 2], 16).unwrap()).collect()
    }
    #[test]
    fn aes_fips197() {
        assert!(available());
        let k = hx("000102030405060708090a0b0c0d0e0f");
        let p = hx("00112233445566778899aabbccddeeff");
        assert_eq!(ecb("AES-128-ECB", &k, true, &p).unwrap(), hx("69c4e0d86a7b0430d8cdb78070b4c55a"));
    }
    #[test]
    fn legacy_algs_load() {
        for (a, kl, bl) in [("BF-ECB", 7, 8), ("CAST5-ECB", 11, 8), ("DES-ECB", 8, 8), ("DES-EDE-ECB", 16, 8), ("DES-EDE3-ECB", 24, 8), ("SM4-ECB", 16, 16), ("ARIA-192-ECB", 24, 16), ("CAMELLIA-256-ECB", 32, 16)] {
            let k: Vec<u8> = (1..=kl as u8).collect();
            let c = ecb(a, &k, true, &vec![0u8; bl]).unwrap_or_else(|| panic!("{a}"));
            let p = ecb(a, &k, false, &c).unwrap();
            assert_eq!(p, vec![0u8; bl], "{a}");
        }
        let c = rc2_ecb(&hx("88bca90e90875a7f0f79c384627bafb2"), 128, true, &[0u8; 8]).unwrap();
        assert_eq!(c, hx("2269552ab0f85ca6"));
    }
    #[test]
    fn bcrypt_openbsd_vector() {
        // OpenBSD test vector: password "" / salt "CCCCCCCCCCCCCCCCCCCCC." cost 6 is long; use a$2b$ known pair
        let h = crypt_hash(b"U*U", "$2b$05$CCCCCCCCCCCCCCCCCCCCC.").unwrap();
        assert_eq!(h, "$2b$05$CCCCCCCCCCCCCCCCCCCCC.E5YPO9kmyuRGyh0XouQYb4YMJKvyOeW");
    }
}

// ------------------------------------------------------------------------------------------
// libgcrypt (second foreign implementation: IDEA, Twofish, Serpent, GOST 28147-89 by OID,
// plus overlap with libcrypto). ECB, whole blocks.
pub mod gcry {
    use std::ffi::{c_char, c_int, c_uint, c_void, CString};
    use std::sync::Once;

    pub const IDEA: c_int = 1;
    pub const TDES: c_int = 2;
    pub const CAST5: c_int = 3;
    pub const BLOWFISH: c_int = 4;
    pub const AES128: c_int = 7;
    pub const AES192: c_int = 8;
    pub const AES256: c_int = 9;
    pub const TWOFISH: c_int = 10;
    pub const DES: c_int = 302;
    pub const TWOFISH128: c_int = 303;
    pub const SERPENT128: c_int = 304;
    pub const SERPENT192: c_int = 305;
    pub const SERPENT256: c_int = 306;
    pub const CAMELLIA128: c_int = 310;
    pub const CAMELLIA192: c_int = 311;
    pub const CAMELLIA256: c_int = 312;
    pub const GOST28147: c_int = 315;
    pub const SM4: c_int = 318;

    #[cfg(not(miri))]
    #[link(name = "gcrypt")]
    extern "C" {
        fn gcry_check_version(req: *const c_char) -> *const c_char;
        fn gcry_control(cmd: c_int, ...) -> c_uint;
        fn gcry_cipher_open(h: *mut *mut c_void, algo: c_int, mode: c_int, flags: c_uint) -> c_uint;
        fn gcry_cipher_close(h: *mut c_void);
        fn gcry_cipher_setkey(h: *mut c_void, key: *const c_void, len: usize) -> c_uint;
        fn gcry_cipher_ctl(h: *mut c_void, cmd: c_int, buf: *mut c_void, len: usize) -> c_uint;
        fn gcry_cipher_encrypt(h: *mut c_void, out: *mut c_void, outsize: usize, inp: *const c_void, inlen: usize) -> c_uint;
        fn gcry_cipher_decrypt(h: *mut c_void, out: *mut c_void, outsize: usize, inp: *const c_void, inlen: usize) -> c_uint;
    }
    static INIT: Once = Once::new();
    static mut OK: bool = false;

    pub fn available() -> bool {
        #[cfg(miri)]
        {
            return false;
        }
        #[cfg(not(miri))]
        unsafe {
            INIT.call_once(|| {
                let v = gcry_check_version(std::ptr::null());
                if !v.is_null() {
                    gcry_control(37, 0 as c_int); // GCRYCTL_DISABLE_SECMEM
                    gcry_control(38, 0 as c_int); // GCRYCTL_INITIALIZATION_FINISHED
                    OK = true;
                }
            });
            OK
        }
    }

    /// ECB over whole blocks; `sbox_oid` selects a GOST 28147-89 parameter set.
    pub fn ecb(algo: c_int, key: &[u8], enc: bool, data: &[u8], sbox_oid: Option<&str>) -> Option<Vec<u8>> {
        #[cfg(miri)]
        {
            let _ = (algo, key, enc, data, sbox_oid);
            return None;
        }
        #[cfg(not(miri))]
        unsafe {
            if !available() {
                return None;
            }
            let mut h: *mut c_void = std::ptr::null_mut();
            if gcry_cipher_open(&mut h, algo, 1, 0) != 0 || h.is_null() {
                return None;
            }
            let mut ok = true;
            if let Some(oid) = sbox_oid {
                let c = CString::new(oid).ok()?;
                // GCRYCTL_SET_SBOX = 73
                ok &= gcry_cipher_ctl(h, 73, c.as_ptr() as *mut c_void, 0) == 0;
            }
            ok &= gcry_cipher_setkey(h, key.as_ptr() as *const c_void, key.len()) == 0;
            let mut out = vec![0u8; data.len()];
            if ok {
                let r = if enc {
                    gcry_cipher_encrypt(h, out.as_mut_ptr() as *mut c_void, out.len(), data.as_ptr() as *const c_void, data.len())
                } else {
                    gcry_cipher_decrypt(h, out.as_mut_ptr() as *mut c_void, out.len(), data.as_ptr() as *const c_void, data.len())
                };
                ok &= r == 0;
            }
            gcry_cipher_close(h);
            if ok {
                Some(out)
            } else {
                None
            }
        }
    }

    #[cfg(test)]
    mod tests {
        use super::*;
        fn hx(s: &str) -> Vec<u8> {
            (0..s.len() / 2).map(|i| u8::from_str_radix(&s[2 * i..2 * i + 2], 16).unwrap()).collect()
        }
        #[test]
        fn gcrypt_vectors() {
            assert!(available());
            let k = hx("000102030405060708090a0b0c0d0e0f");
            assert_eq!(ecb(AES128, &k, true, &hx("00112233445566778899aabbccddeeff"), None).unwrap(), hx("69c4e0d86a7b0430d8cdb78070b4c55a"));
            // Twofish paper KAT, 128-bit zero key
            assert_eq!(ecb(TWOFISH128, &[0u8; 16], true, &[0u8; 16], None).unwrap(), hx("9f589f5cf6122c32b6bfec2f2ae8c35a"));
            // IDEA classic vector
            assert_eq!(ecb(IDEA, &hx("00010002000300040005000600070008"), true, &hx("0000000100020003"), None).unwrap(), hx("11fbed2b01986de5"));
            // GOST R 34.12-2015 Magma example with the tc26-Z parameter set
            let gk = hx("ffeeddccbbaa99887766554433221100f0f1f2f3f4f5f6f7f8f9fafbfcfdfeff");
            let r = ecb(GOST28147, &gk, true, &hx("fedcba9876543210"), Some("1.2.643.7.1.2.5.1.1"));
            println!("gost tc26: {:x?}", r);
            // Magma (big-endian words) through libgcrypt's little-endian GOST 28147-89: byte-swap each key
            // word, reverse the block, reverse the result
            let kk: Vec<u8> = gk.chunks(4).flat_map(|w| w.iter().rev().cloned().collect::<Vec<u8>>()).collect();
            let blk: Vec<u8> = hx("fedcba9876543210").into_iter().rev().collect();
            let mut r2 = ecb(GOST28147, &kk, true, &blk, Some("1.2.643.7.1.2.5.1.1")).unwrap();
            r2.reverse();
            assert_eq!(r2, hx("4ee901e5c2d8ca3d"));
            for a in [SERPENT128, SERPENT192, SERPENT256, TWOFISH, CAST5, BLOWFISH, SM4, CAMELLIA192, DES, TDES] {
                let kl = match a { SERPENT128 => 16, SERPENT192 => 24, SERPENT256 | TWOFISH => 32, CAST5 | BLOWFISH | SM4 => 16, CAMELLIA192 => 24, DES => 8, _ => 24 };
                let key: Vec<u8> = (1..=kl as u8).collect();
                let bl = if matches!(a, CAST5 | BLOWFISH | DES | TDES) { 8 } else { 16 };
                let c = ecb(a, &key, true, &vec![7u8; bl], None).unwrap_or_else(|| panic!("algo {}", a));
                assert_eq!(ecb(a, &key, false, &c, None).unwrap(), vec![7u8; bl]);
            }
        }
    }
}
