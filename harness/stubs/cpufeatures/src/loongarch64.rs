//! LoongArch64 CPU feature detection support.
//!
//! This implementation relies on OS-specific APIs for feature detection.

// Evaluate the given `$body` expression any of the supplied target features
// are not enabled. Otherwise returns true.
#[macro_export]
#[doc(hidden)]
macro_rules! __unless_target_features {
    ($($tf:tt),+ => $body:expr ) => {
        {
            #[cfg(not(all($(target_feature=$tf,)*)))]
            $body

            #[cfg(all($(target_feature=$tf,)*))]
            true
        }
    };
}

// Linux runtime detection of target CPU features using `getauxval`.
#[cfg(target_os = "linux")]
#[macro_export]
#[doc(hidden)]
macro_rules! __detect_target_features {
    ($($tf:tt),+) => {{
        let hwcaps = $crate::loongarch64::getauxval_hwcap();
        $($crate::check!(hwcaps, $tf) & )+ true
    }};
}

/// Linux helper function for calling `getauxval` to get `AT_HWCAP`.
#[cfg(target_os = "linux")]
pub fn getauxval_hwcap() -> u64 {
    unsafe { libc::getauxval(libc::AT_HWCAP) }
}

// Linux `expand_check_macro`
#[cfg(target_os = "linux")]
macro_rules! __expand_check_macro {
    ($(($name:tt, $hwcap:ident)),* $(,)?) => {
        #[macro_export]
        #[doc(hidden)]
        macro_rules! check {
            $(
                ($hwcaps:expr, $name) => {
                    (($hwcaps & $crate::loongarch64::hwcaps::$hwcap) != 0)
                };
            )*
        }
    };
}

// Linux `expand_check_macro`
#[cfg(target_os = "linux")]
__expand_check_macro! {
    ("cpucfg",   CPUCFG),   // Enable CPUCFG support.
    ("lam",      LAM),      // Enable LAM support.
    ("ual",      UAL),      // Enable UAL support.
    ("fpu",      FPU),      // Enable FPU support.
    ("lsx",      LSX),      // Enable LSX support.
    ("lasx",     LASX),     // Enable LASX support.
    ("crc32",    CRC32),    // Enable CRC32 support.
    ("complex",  COMPLEX),  // Enable COMPLEX support.
    ("crypto",   CRYPTO),   // Enable CRYPTO support.
    ("lvz",      LVZ),      // Enable LVZ support.
    ("lbt.x86",  LBT_X86),  // Enable LBT_X86 support.
    ("lbt.arm",  LBT_ARM),  // Enable LBT_ARM support.
    ("lbt.mips", LBT_MIPS), // Enable LBT_MIPS support.
    ("ptw",      PTW),      // Enable PTW support.
}

/// Linux hardware capabilities mapped to target features.
///
/// Note that LLVM target features are coarser grained than what Linux supports
/// and imply more capabilities under each feature. This module attempts to
/// provide that mapping accordingly.
#[cfg(target_os = "linux")]
pub mod hwcaps {
    use libc::c_ulong;

    pub const CPUCFG: c_ulong = libc::HWCAP_LOONGARCH_CPUCFG;
    pub const LAM: c_ulong = libc::HWCAP_LOONGARCH_LAM;
    pub const UAL: c_ulong = libc::HWCAP_LOONGARCH_UAL;
    pub const FPU: c_ulong = libc::HWCAP_LOONGARCH_FPU;
    pub const LSX: c_ulong = libc::HWCAP_LOONGARCH_LSX;
    pub const LASX: c_ulong = libc::HWCAP_LOONGARCH_LASX;
    pub const CRC32: c_ulong = libc::HWCAP_LOONGARCH_CRC32;
    pub const COMPLEX: c_ulong = libc::HWCAP_LOONGARCH_COMPLEX;
    pub const CRYPTO: c_ulong = libc::HWCAP_LOONGARCH_CRYPTO;
    pub const LVZ: c_ulong = libc::HWCAP_LOONGARCH_LVZ;
    pub const LBT_X86: c_ulong = libc::HWCAP_LOONGARCH_LBT_X86;
    pub const LBT_ARM: c_ulong = libc::HWCAP_LOONGARCH_LBT_ARM;
    pub const LBT_MIPS: c_ulong = libc::HWCAP_LOONGARCH_LBT_MIPS;
    pub const PTW: c_ulong = libc::HWCAP_LOONGARCH_PTW;
}

// On other targets, runtime CPU feature detection is unavailable
#[cfg(not(target_os = "linux"))]
#[macro_export]
#[doc(hidden)]
macro_rules! __detect_target_features {
    ($($tf:tt),+) => {
        false
    };
}
