//! ARM64 CPU feature detection support.
//!
//! Unfortunately ARM instructions to detect CPU features cannot be called from
//! unprivileged userspace code, so this implementation relies on OS-specific
//! APIs for feature detection.

// Evaluate the given `$body` expression any of the supplied target features
// are not enabled. Otherwise returns true.
#[macro_export]
#[doc(hidden)]
macro_rules! __unless_target_features {
    ($($tf:tt),+ => $body:expr ) => {
        {
            #[cfg(not(all($(target_feature=$tf,)*)))]
            $body

            #[cfg(all($(target_feature=$tf,)*))]
            true
        }
    };
}

// Linux runtime detection of target CPU features using `getauxval`.
#[cfg(any(target_os = "linux", target_os = "android"))]
#[macro_export]
#[doc(hidden)]
macro_rules! __detect_target_features {
    ($($tf:tt),+) => {{
        let hwcaps = $crate::aarch64::getauxval_hwcap();
        $($crate::check!(hwcaps, $tf) & )+ true
    }};
}

/// Linux helper function for calling `getauxval` to get `AT_HWCAP`.
#[cfg(any(target_os = "linux", target_os = "android"))]
pub fn getauxval_hwcap() -> u64 {
    unsafe { libc::getauxval(libc::AT_HWCAP) }
}

// Apple platform's runtime detection of target CPU features using `sysctlbyname`.
#[cfg(target_vendor = "apple")]
#[macro_export]
#[doc(hidden)]
macro_rules! __detect_target_features {
    ($($tf:tt),+) => {{
        $($crate::check!($tf) & )+ true
    }};
}

// Linux `expand_check_macro`
#[cfg(any(target_os = "linux", target_os = "android"))]
macro_rules! __expand_check_macro {
    ($(($name:tt, $hwcap:ident)),* $(,)?) => {
        #[macro_export]
        #[doc(hidden)]
        macro_rules! check {
            $(
                ($hwcaps:expr, $name) => {
                    (($hwcaps & $crate::aarch64::hwcaps::$hwcap) != 0)
                };
            )*
        }
    };
}

// Linux `expand_check_macro`
#[cfg(any(target_os = "linux", target_os = "android"))]
__expand_check_macro! {
    ("aes",    AES),    // Enable AES support.
    ("dit",    DIT),    // Enable DIT support.
    ("sha2",   SHA2),   // Enable SHA1 and SHA256 support.
    ("sha3",   SHA3),   // Enable SHA512 and SHA3 support.
    ("sm4",    SM4),    // Enable SM3 and SM4 support.
}

/// Linux hardware capabilities mapped to target features.
///
/// Note that LLVM target features are coarser grained than what Linux supports
/// and imply more capabilities under each feature. This module attempts to
/// provide that mapping accordingly.
///
/// See this issue for more info: <https://github.com/RustCrypto/utils/issues/395>
#[cfg(any(target_os = "linux", target_os = "android"))]
pub mod hwcaps {
    use libc::c_ulong;

    pub const AES: c_ulong = libc::HWCAP_AES | libc::HWCAP_PMULL;
    pub const DIT: c_ulong = libc::HWCAP_DIT;
    pub const SHA2: c_ulong = libc::HWCAP_SHA2;
    pub const SHA3: c_ulong = libc::HWCAP_SHA3 | libc::HWCAP_SHA512;
    pub const SM4: c_ulong = libc::HWCAP_SM3 | libc::HWCAP_SM4;
}

// Apple OS (macOS, iOS, watchOS, and tvOS) `check!` macro.
//
// NOTE: several of these instructions (e.g. `aes`, `sha2`) can be assumed to
// be present on all Apple ARM64 hardware.
//
// Newer CPU instructions now have nodes within sysctl's `hw.optional`
// namespace, however the ones that do not can safely be assumed to be
// present on all Apple ARM64 devices, now and for the foreseeable future.
//
// See discussion on this issue for more information:
// <https://github.com/RustCrypto/utils/issues/378>
#[cfg(target_vendor = "apple")]
#[macro_export]
#[doc(hidden)]
macro_rules! check {
    ("aes") => {
        true
    };
    ("dit") => {
        // https://developer.apple.com/documentation/xcode/writing-arm64-code-for-apple-platforms#Enable-DIT-for-constant-time-cryptographic-operations
        unsafe {
            $crate::aarch64::sysctlbyname(b"hw.optional.arm.FEAT_DIT\0")
        }
    };
    ("sha2") => {
        true
    };
    ("sha3") => {
        unsafe {
            // `sha3` target feature implies SHA-512 as well
            $crate::aarch64::sysctlbyname(b"hw.optional.armv8_2_sha512\0")
                && $crate::aarch64::sysctlbyname(b"hw.optional.armv8_2_sha3\0")
        }
    };
    ("sm4") => {
        false
    };
}

/// Apple helper function for calling `sysctlbyname`.
#[cfg(target_vendor = "apple")]
pub unsafe fn sysctlbyname(name: &[u8]) -> bool {
    assert_eq!(
        name.last().cloned(),
        Some(0),
        "name is not NUL terminated: {:?}",
        name
    );

    let mut value: u32 = 0;
    let mut size = core::mem::size_of::<u32>();

    let rc = libc::sysctlbyname(
        name.as_ptr() as *const i8,
        &mut value as *mut _ as *mut libc::c_void,
        &mut size,
        core::ptr::null_mut(),
        0,
    );

    assert_eq!(size, 4, "unexpected sysctlbyname(3) result size");
    assert_eq!(rc, 0, "sysctlbyname returned error code: {}", rc);
    value != 0
}

// On other targets, runtime CPU feature detection is unavailable
#[cfg(not(any(target_vendor = "apple", target_os = "linux", target_os = "android",)))]
#[macro_export]
#[doc(hidden)]
macro_rules! __detect_target_features {
    ($($tf:tt),+) => {
        false
    };
}
