//! Minimal miri support.
//!
//! Miri is an interpreter, and though it tries to emulate the target CPU
//! it does not support any target features.

#[macro_export]
#[doc(hidden)]
macro_rules! __unless_target_features {
    ($($tf:tt),+ => $body:expr ) => {
        false
    };
}

#[macro_export]
#[doc(hidden)]
macro_rules! __detect_target_features {
    ($($tf:tt),+) => {
        false
    };
}
