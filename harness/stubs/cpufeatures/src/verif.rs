//! Verification stub additions (not part of upstream cpufeatures 0.2.17).
//!
//! * `set_force_absent(true)` makes every *subsequent first* detection answer "absent". The
//!   harness sets it once per process before any cipher is constructed and never changes it:
//!   flipping it later would make `InitToken::get()` disagree with the union arm that was
//!   initialised, a state the real program cannot reach.
//! * `set_delay(n)` spins `n` iterations inside the detection window (between the `load`
//!   that saw UNINIT and the `store`), widening the genuine first-use race window.
//! * counters: detections run, maximum number of detections in flight at once.
use core::sync::atomic::{AtomicBool, AtomicU32, AtomicU64, Ordering::SeqCst};

static FORCE_ABSENT: AtomicBool = AtomicBool::new(false);
static DELAY: AtomicU64 = AtomicU64::new(0);
static CALLS: AtomicU32 = AtomicU32::new(0);
static IN_FLIGHT: AtomicU32 = AtomicU32::new(0);
static MAX_IN_FLIGHT: AtomicU32 = AtomicU32::new(0);

pub fn set_force_absent(v: bool) {
    FORCE_ABSENT.store(v, SeqCst);
}
pub fn force_absent() -> bool {
    FORCE_ABSENT.load(SeqCst)
}
pub fn set_delay(iters: u64) {
    DELAY.store(iters, SeqCst);
}
pub fn calls() -> u32 {
    CALLS.load(SeqCst)
}
pub fn max_in_flight() -> u32 {
    MAX_IN_FLIGHT.load(SeqCst)
}

#[inline(never)]
pub fn decide(real: impl FnOnce() -> bool) -> bool {
    CALLS.fetch_add(1, SeqCst);
    let now = IN_FLIGHT.fetch_add(1, SeqCst) + 1;
    MAX_IN_FLIGHT.fetch_max(now, SeqCst);
    let n = DELAY.load(SeqCst);
    let mut i = 0u64;
    while i < n {
        core::hint::spin_loop();
        i += 1;
    }
    let r = if FORCE_ABSENT.load(SeqCst) { false } else { real() };
    IN_FLIGHT.fetch_sub(1, SeqCst);
    r
}
