//! x86/x86-64 CPU feature detection support.
//!
//! Portable, `no_std`-friendly implementation that relies on the x86 `CPUID`
//! instruction for feature detection.

/// Evaluate the given `$body` expression any of the supplied target features
/// are not enabled. Otherwise returns true.
///
/// The `$body` expression is not evaluated on SGX targets, and returns false
/// on these targets unless *all* supplied target features are enabled.
#[macro_export]
#[doc(hidden)]
macro_rules! __unless_target_features {
    ($($tf:tt),+ => $body:expr ) => {{
        #[cfg(not(all($(target_feature=$tf,)*)))]
        {
            #[cfg(not(any(target_env = "sgx", target_os = "none", target_os = "uefi")))]
            $body

            // CPUID is not available on SGX. Freestanding and UEFI targets
            // do not support SIMD features with default compilation flags.
            #[cfg(any(target_env = "sgx", target_os = "none", target_os = "uefi"))]
            false
        }

        #[cfg(all($(target_feature=$tf,)*))]
        true
    }};
}

/// Use CPUID to detect the presence of all supplied target features.
#[macro_export]
#[doc(hidden)]
macro_rules! __detect_target_features {
    ($($tf:tt),+) => {{
        #[cfg(target_arch = "x86")]
        use core::arch::x86::{__cpuid, __cpuid_count, CpuidResult};
        #[cfg(target_arch = "x86_64")]
        use core::arch::x86_64::{__cpuid, __cpuid_count, CpuidResult};

        // These wrappers are workarounds around
        // https://github.com/rust-lang/rust/issues/101346
        //
        // DO NOT remove it until MSRV is bumped to a version
        // with the issue fix (at least 1.64).
        #[inline(never)]
        unsafe fn cpuid(leaf: u32) -> CpuidResult {
            __cpuid(leaf)
        }

        #[inline(never)]
        unsafe fn cpuid_count(leaf: u32, sub_leaf: u32) -> CpuidResult {
            __cpuid_count(leaf, sub_leaf)
        }

        let cr = unsafe {
            [cpuid(1), cpuid_count(7, 0)]
        };

        $($crate::check!(cr, $tf) & )+ true
    }};
}

/// Check that OS supports required SIMD registers
#[macro_export]
#[doc(hidden)]
macro_rules! __xgetbv {
    ($cr:expr, $mask:expr) => {{
        #[cfg(target_arch = "x86")]
        use core::arch::x86 as arch;
        #[cfg(target_arch = "x86_64")]
        use core::arch::x86_64 as arch;

        // Check bits 26 and 27
        let xmask = 0b11 << 26;
        let xsave = $cr[0].ecx & xmask == xmask;
        if xsave {
            let xcr0 = unsafe { arch::_xgetbv(arch::_XCR_XFEATURE_ENABLED_MASK) };
            (xcr0 & $mask) == $mask
        } else {
            false
        }
    }};
}

macro_rules! __expand_check_macro {
    ($(($name:tt, $reg_cap:tt $(, $i:expr, $reg:ident, $offset:expr)*)),* $(,)?) => {
        #[macro_export]
        #[doc(hidden)]
        macro_rules! check {
            $(
                ($cr:expr, $name) => {{
                    // Register bits are listed here:
                    // https://wiki.osdev.org/CPU_Registers_x86#Extended_Control_Registers
                    let reg_cap = match $reg_cap {
                        // Bit 1
                        "xmm" => $crate::__xgetbv!($cr, 0b10),
                        // Bits 1 and 2
                        "ymm" => $crate::__xgetbv!($cr, 0b110),
                        // Bits 1, 2, 5, 6, and 7
                        "zmm" => $crate::__xgetbv!($cr, 0b1110_0110),
                        _ => true,
                    };
                    reg_cap
                    $(
                        & ($cr[$i].$reg & (1 << $offset) != 0)
                    )*
                }};
            )*
        }
    };
}

__expand_check_macro! {
    ("sse3", "", 0, ecx, 0),
    ("pclmulqdq", "", 0, ecx, 1),
    ("ssse3", "", 0, ecx, 9),
    ("fma", "ymm", 0, ecx, 12, 0, ecx, 28),
    ("sse4.1", "", 0, ecx, 19),
    ("sse4.2", "", 0, ecx, 20),
    ("popcnt", "", 0, ecx, 23),
    ("aes", "", 0, ecx, 25),
    ("avx", "xmm", 0, ecx, 28),
    ("rdrand", "", 0, ecx, 30),

    ("mmx", "", 0, edx, 23),
    ("sse", "", 0, edx, 25),
    ("sse2", "", 0, edx, 26),

    ("sgx", "", 1, ebx, 2),
    ("bmi1", "", 1, ebx, 3),
    ("bmi2", "", 1, ebx, 8),
    ("avx2", "ymm", 1, ebx, 5, 0, ecx, 28),
    ("avx512f", "zmm", 1, ebx, 16),
    ("avx512dq", "zmm", 1, ebx, 17),
    ("rdseed", "", 1, ebx, 18),
    ("adx", "", 1, ebx, 19),
    ("avx512ifma", "zmm", 1, ebx, 21),
    ("avx512pf", "zmm", 1, ebx, 26),
    ("avx512er", "zmm", 1, ebx, 27),
    ("avx512cd", "zmm", 1, ebx, 28),
    ("sha", "", 1, ebx, 29),
    ("avx512bw", "zmm", 1, ebx, 30),
    ("avx512vl", "zmm", 1, ebx, 31),
    ("avx512vbmi", "zmm", 1, ecx, 1),
    ("avx512vbmi2", "zmm", 1, ecx, 6),
    ("gfni", "zmm", 1, ecx, 8),
    ("vaes", "zmm", 1, ecx, 9),
    ("vpclmulqdq", "zmm", 1, ecx, 10),
    ("avx512bitalg", "zmm", 1, ecx, 12),
    ("avx512vpopcntdq", "zmm", 1, ecx, 14),
}
