//! Software model of the aarch64 NEON / Cryptography-Extension intrinsics used by
//! `/repo/aes/src/armv8*` and `/repo/kuznyechik/src/neon/*`.
//!
//! The generated shadow crates (`tools/gen_shadow.py`) replace `core::arch::aarch64::*` by
//! `arm_model::*`, so the aarch64-only sources compile and run natively on an x86-64 host.
//!
//! Semantics follow the Arm Architecture Reference Manual pseudocode (little-endian
//! aarch64: lane 0 is the byte/halfword/word at the lowest address):
//!
//! * `AESE  Vd, Vn`  : `Vd = SubBytes(ShiftRows(Vd EOR Vn))`
//! * `AESD  Vd, Vn`  : `Vd = InvSubBytes(InvShiftRows(Vd EOR Vn))`
//! * `AESMC Vd, Vn`  : `Vd = MixColumns(Vn)`
//! * `AESIMC Vd, Vn` : `Vd = InvMixColumns(Vn)`
//! * `TBL` (4 registers): out-of-range index (>= 64) yields 0
//! * `ZIP1/ZIP2`, `SHL`, `SUB` (modular), `EOR`, `ORR`, `DUP`, `UMOV` as usual.
//!
//! Every vector is stored as its little-endian byte image, so `vreinterpretq_*` is the
//! identity on the byte image exactly as on little-endian aarch64, and the model gives the
//! same results on any host endianness.
//!
//! Loads and stores go through `read_unaligned` / `write_unaligned` on the caller's raw
//! pointer, hence ASan/Miri observe the same 16-byte access footprint as the real `LD1`/`ST1`.
//!
//! All intrinsics are `unsafe fn` (as they are, or were, in `core::arch::aarch64`); the ones
//! whose lane / shift operand is a `rustc_legacy_const_generics` const generic in `core::arch`
//! (`vgetq_lane_u16(v, 3)`, `vgetq_lane_u32(v, 0)`, `vshlq_n_u16(v, 4)`) take it as an ordinary
//! trailing `i32` argument here: the legacy call syntax the repository uses is accepted
//! unchanged; the range check that `core::arch` does at compile time is an `assert!` here.
//!
//! What is *not* modelled: instruction selection, real NEON hardware, aarch64 HWCAP feature
//! detection. Only the value semantics and memory footprint of the intrinsics are.

#![no_std]
#![allow(non_camel_case_types)]
#![allow(clippy::missing_safety_doc, clippy::needless_range_loop)]

#[cfg(test)]
extern crate std;

// ------------------------------------------------------------------------------------------
// Vector types
// ------------------------------------------------------------------------------------------

/// 128-bit vector of sixteen `u8` lanes (lane `i` is byte `i` of the memory image).
#[repr(C, align(16))]
#[derive(Clone, Copy, Debug)]
pub struct uint8x16_t([u8; 16]);

/// 128-bit vector of eight `u16` lanes, stored as its little-endian byte image.
#[repr(C, align(16))]
#[derive(Clone, Copy, Debug)]
pub struct uint16x8_t([u8; 16]);

/// 128-bit vector of four `u32` lanes, stored as its little-endian byte image.
#[repr(C, align(16))]
#[derive(Clone, Copy, Debug)]
pub struct uint32x4_t([u8; 16]);

/// 64-bit vector of eight `u8` lanes.
#[repr(C, align(8))]
#[derive(Clone, Copy, Debug)]
pub struct uint8x8_t([u8; 8]);

/// Four 128-bit byte vectors (table operand of `TBL`); built with the tuple constructor,
/// exactly like `core::arch::aarch64::uint8x16x4_t`.
#[repr(C)]
#[derive(Clone, Copy, Debug)]
pub struct uint8x16x4_t(
    pub uint8x16_t,
    pub uint8x16_t,
    pub uint8x16_t,
    pub uint8x16_t,
);

const _: () = {
    assert!(core::mem::size_of::<uint8x16_t>() == 16 && core::mem::align_of::<uint8x16_t>() == 16);
    assert!(core::mem::size_of::<uint16x8_t>() == 16 && core::mem::align_of::<uint16x8_t>() == 16);
    assert!(core::mem::size_of::<uint32x4_t>() == 16 && core::mem::align_of::<uint32x4_t>() == 16);
    assert!(core::mem::size_of::<uint8x8_t>() == 8 && core::mem::align_of::<uint8x8_t>() == 8);
    assert!(core::mem::size_of::<uint8x16x4_t>() == 64);
};

// ------------------------------------------------------------------------------------------
// AES primitives (computed, not transcribed)
// ------------------------------------------------------------------------------------------

/// Multiplication in GF(2^8) modulo x^8 + x^4 + x^3 + x + 1.
const fn gmul(mut a: u8, mut b: u8) -> u8 {
    let mut p = 0u8;
    let mut i = 0;
    while i < 8 {
        if b & 1 != 0 {
            p ^= a;
        }
        let hi = a & 0x80;
        a <<= 1;
        if hi != 0 {
            a ^= 0x1b;
        }
        b >>= 1;
        i += 1;
    }
    p
}

/// Multiplicative inverse in GF(2^8) (0 maps to 0): a^254.
const fn ginv(a: u8) -> u8 {
    // a^254 = a^2 * a^4 * a^8 * a^16 * a^32 * a^64 * a^128
    let mut r = 1u8;
    let mut sq = gmul(a, a); // a^2
    let mut i = 0;
    while i < 7 {
        r = gmul(r, sq);
        sq = gmul(sq, sq);
        i += 1;
    }
    r
}

/// FIPS-197 5.1.1: S(x) = Affine(x^-1).
const fn make_sbox() -> [u8; 256] {
    let mut t = [0u8; 256];
    let mut x = 0usize;
    while x < 256 {
        let b = ginv(x as u8);
        t[x] = b ^ b.rotate_left(1) ^ b.rotate_left(2) ^ b.rotate_left(3) ^ b.rotate_left(4) ^ 0x63;
        x += 1;
    }
    t
}

const fn make_inv_sbox(s: &[u8; 256]) -> [u8; 256] {
    let mut t = [0u8; 256];
    let mut x = 0usize;
    while x < 256 {
        t[s[x] as usize] = x as u8;
        x += 1;
    }
    t
}

static SBOX: [u8; 256] = make_sbox();
static INV_SBOX: [u8; 256] = make_inv_sbox(&make_sbox());

/// State byte `4*c + r` is row `r`, column `c` (FIPS-197 3.4).
#[inline]
fn shift_rows(s: [u8; 16]) -> [u8; 16] {
    let mut o = [0u8; 16];
    for c in 0..4 {
        for r in 0..4 {
            o[4 * c + r] = s[4 * ((c + r) % 4) + r];
        }
    }
    o
}

#[inline]
fn inv_shift_rows(s: [u8; 16]) -> [u8; 16] {
    let mut o = [0u8; 16];
    for c in 0..4 {
        for r in 0..4 {
            o[4 * ((c + r) % 4) + r] = s[4 * c + r];
        }
    }
    o
}

#[inline]
fn mix_columns_with(s: [u8; 16], m: [u8; 4]) -> [u8; 16] {
    // out[r] = sum_j m[(j - r) mod 4] * in[j]  (circulant matrix with first row m)
    let mut o = [0u8; 16];
    for c in 0..4 {
        for r in 0..4 {
            let mut acc = 0u8;
            for j in 0..4 {
                acc ^= gmul(m[(j + 4 - r) % 4], s[4 * c + j]);
            }
            o[4 * c + r] = acc;
        }
    }
    o
}

#[inline]
fn xor16(a: [u8; 16], b: [u8; 16]) -> [u8; 16] {
    let mut o = [0u8; 16];
    for i in 0..16 {
        o[i] = a[i] ^ b[i];
    }
    o
}

// ------------------------------------------------------------------------------------------
// Cryptography Extension
// ------------------------------------------------------------------------------------------

/// `AESE`: `SubBytes(ShiftRows(data ^ key))`.
#[inline]
pub unsafe fn vaeseq_u8(data: uint8x16_t, key: uint8x16_t) -> uint8x16_t {
    let mut s = shift_rows(xor16(data.0, key.0));
    for b in s.iter_mut() {
        *b = SBOX[*b as usize];
    }
    uint8x16_t(s)
}

/// `AESD`: `InvSubBytes(InvShiftRows(data ^ key))`.
#[inline]
pub unsafe fn vaesdq_u8(data: uint8x16_t, key: uint8x16_t) -> uint8x16_t {
    let mut s = inv_shift_rows(xor16(data.0, key.0));
    for b in s.iter_mut() {
        *b = INV_SBOX[*b as usize];
    }
    uint8x16_t(s)
}

/// `AESMC`: `MixColumns(data)`.
#[inline]
pub unsafe fn vaesmcq_u8(data: uint8x16_t) -> uint8x16_t {
    uint8x16_t(mix_columns_with(data.0, [2, 3, 1, 1]))
}

/// `AESIMC`: `InvMixColumns(data)`.
#[inline]
pub unsafe fn vaesimcq_u8(data: uint8x16_t) -> uint8x16_t {
    uint8x16_t(mix_columns_with(data.0, [0x0e, 0x0b, 0x0d, 0x09]))
}

// ------------------------------------------------------------------------------------------
// Loads / stores (real memory footprint: 16 bytes, no alignment requirement)
// ------------------------------------------------------------------------------------------

/// `LD1 {Vt.16B}, [Xn]`.
#[inline]
pub unsafe fn vld1q_u8(ptr: *const u8) -> uint8x16_t {
    uint8x16_t(core::ptr::read_unaligned(ptr as *const [u8; 16]))
}

/// `ST1 {Vt.16B}, [Xn]`.
#[inline]
pub unsafe fn vst1q_u8(ptr: *mut u8, a: uint8x16_t) {
    core::ptr::write_unaligned(ptr as *mut [u8; 16], a.0)
}

// ------------------------------------------------------------------------------------------
// Lane-wise arithmetic / logic
// ------------------------------------------------------------------------------------------

/// `EOR`.
#[inline]
pub unsafe fn veorq_u8(a: uint8x16_t, b: uint8x16_t) -> uint8x16_t {
    uint8x16_t(xor16(a.0, b.0))
}

/// `ORR`.
#[inline]
pub unsafe fn vorrq_u8(a: uint8x16_t, b: uint8x16_t) -> uint8x16_t {
    let mut o = [0u8; 16];
    for i in 0..16 {
        o[i] = a.0[i] | b.0[i];
    }
    uint8x16_t(o)
}

/// `SUB` (modulo 2^8 per lane).
#[inline]
pub unsafe fn vsubq_u8(a: uint8x16_t, b: uint8x16_t) -> uint8x16_t {
    let mut o = [0u8; 16];
    for i in 0..16 {
        o[i] = a.0[i].wrapping_sub(b.0[i]);
    }
    uint8x16_t(o)
}

/// `DUP Vd.16B, Wn`.
#[inline]
pub unsafe fn vdupq_n_u8(value: u8) -> uint8x16_t {
    uint8x16_t([value; 16])
}

/// `DUP Vd.4S, Wn`.
#[inline]
pub unsafe fn vdupq_n_u32(value: u32) -> uint32x4_t {
    let w = value.to_le_bytes();
    let mut o = [0u8; 16];
    for i in 0..16 {
        o[i] = w[i % 4];
    }
    uint32x4_t(o)
}

/// `SHL Vd.8H, Vn.8H, #n` (0 <= n <= 15; a const generic in `core::arch`).
#[inline]
pub unsafe fn vshlq_n_u16(a: uint16x8_t, n: i32) -> uint16x8_t {
    assert!((0..16).contains(&n), "vshlq_n_u16: shift out of range");
    let mut o = [0u8; 16];
    for i in 0..8 {
        let lane = u16::from_le_bytes([a.0[2 * i], a.0[2 * i + 1]]) << n;
        let b = lane.to_le_bytes();
        o[2 * i] = b[0];
        o[2 * i + 1] = b[1];
    }
    uint16x8_t(o)
}

// ------------------------------------------------------------------------------------------
// Lane extraction (`UMOV`); the lane index is a const generic in `core::arch`
// ------------------------------------------------------------------------------------------

/// `UMOV Wd, Vn.H[lane]` (0 <= lane <= 7).
#[inline]
pub unsafe fn vgetq_lane_u16(v: uint16x8_t, lane: i32) -> u16 {
    assert!((0..8).contains(&lane), "vgetq_lane_u16: lane out of range");
    let i = lane as usize;
    u16::from_le_bytes([v.0[2 * i], v.0[2 * i + 1]])
}

/// `UMOV Wd, Vn.S[lane]` (0 <= lane <= 3).
#[inline]
pub unsafe fn vgetq_lane_u32(v: uint32x4_t, lane: i32) -> u32 {
    assert!((0..4).contains(&lane), "vgetq_lane_u32: lane out of range");
    let i = lane as usize;
    u32::from_le_bytes([v.0[4 * i], v.0[4 * i + 1], v.0[4 * i + 2], v.0[4 * i + 3]])
}

// ------------------------------------------------------------------------------------------
// Reinterpretation (identity on the little-endian byte image)
// ------------------------------------------------------------------------------------------

#[inline]
pub unsafe fn vreinterpretq_u8_u32(a: uint32x4_t) -> uint8x16_t {
    uint8x16_t(a.0)
}

#[inline]
pub unsafe fn vreinterpretq_u32_u8(a: uint8x16_t) -> uint32x4_t {
    uint32x4_t(a.0)
}

#[inline]
pub unsafe fn vreinterpretq_u16_u8(a: uint8x16_t) -> uint16x8_t {
    uint16x8_t(a.0)
}

#[inline]
pub unsafe fn vreinterpretq_u8_u16(a: uint16x8_t) -> uint8x16_t {
    uint8x16_t(a.0)
}

// ------------------------------------------------------------------------------------------
// Construction / permutation
// ------------------------------------------------------------------------------------------

/// `vcreate_u8`: the eight bytes of `a`, least significant byte in lane 0.
#[inline]
pub unsafe fn vcreate_u8(a: u64) -> uint8x8_t {
    uint8x8_t(a.to_le_bytes())
}

/// `vcombine_u8`: `low` in lanes 0..8, `high` in lanes 8..16.
#[inline]
pub unsafe fn vcombine_u8(low: uint8x8_t, high: uint8x8_t) -> uint8x16_t {
    let mut o = [0u8; 16];
    for i in 0..8 {
        o[i] = low.0[i];
        o[8 + i] = high.0[i];
    }
    uint8x16_t(o)
}

/// `ZIP1 Vd.16B`: interleave the low halves, `a[0], b[0], a[1], b[1], ..`.
#[inline]
pub unsafe fn vzip1q_u8(a: uint8x16_t, b: uint8x16_t) -> uint8x16_t {
    let mut o = [0u8; 16];
    for i in 0..8 {
        o[2 * i] = a.0[i];
        o[2 * i + 1] = b.0[i];
    }
    uint8x16_t(o)
}

/// `ZIP2 Vd.16B`: interleave the high halves, `a[8], b[8], a[9], b[9], ..`.
#[inline]
pub unsafe fn vzip2q_u8(a: uint8x16_t, b: uint8x16_t) -> uint8x16_t {
    let mut o = [0u8; 16];
    for i in 0..8 {
        o[2 * i] = a.0[8 + i];
        o[2 * i + 1] = b.0[8 + i];
    }
    uint8x16_t(o)
}

/// `TBL Vd.16B, {Vn.16B - Vn+3.16B}, Vm.16B`: 64-byte table lookup, 0 for index >= 64.
#[inline]
pub unsafe fn vqtbl4q_u8(t: uint8x16x4_t, idx: uint8x16_t) -> uint8x16_t {
    let tab = [&t.0 .0, &t.1 .0, &t.2 .0, &t.3 .0];
    let mut o = [0u8; 16];
    for i in 0..16 {
        let j = idx.0[i] as usize;
        o[i] = if j < 64 { tab[j / 16][j % 16] } else { 0 };
    }
    uint8x16_t(o)
}

// ------------------------------------------------------------------------------------------
// Self tests
// ------------------------------------------------------------------------------------------

#[cfg(test)]
mod tests {
    use super::*;

    fn ld(b: [u8; 16]) -> uint8x16_t {
        unsafe { vld1q_u8(b.as_ptr()) }
    }

    fn st(v: uint8x16_t) -> [u8; 16] {
        let mut o = [0u8; 16];
        unsafe { vst1q_u8(o.as_mut_ptr(), v) };
        o
    }

    fn hex(s: &str) -> [u8; 16] {
        assert_eq!(s.len(), 32);
        let mut o = [0u8; 16];
        for i in 0..16 {
            o[i] = u8::from_str_radix(&s[2 * i..2 * i + 2], 16).unwrap();
        }
        o
    }

    fn zero() -> uint8x16_t {
        unsafe { vdupq_n_u8(0) }
    }

    /// splitmix64
    struct Rng(u64);
    impl Rng {
        fn next(&mut self) -> u64 {
            self.0 = self.0.wrapping_add(0x9e37_79b9_7f4a_7c15);
            let mut z = self.0;
            z = (z ^ (z >> 30)).wrapping_mul(0xbf58_476d_1ce4_e5b9);
            z = (z ^ (z >> 27)).wrapping_mul(0x94d0_49bb_1331_11eb);
            z ^ (z >> 31)
        }
        fn block(&mut self) -> [u8; 16] {
            let mut o = [0u8; 16];
            o[..8].copy_from_slice(&self.next().to_le_bytes());
            o[8..].copy_from_slice(&self.next().to_le_bytes());
            o
        }
    }

    #[test]
    fn layout() {
        use core::mem::{align_of, size_of};
        assert_eq!((size_of::<uint8x16_t>(), align_of::<uint8x16_t>()), (16, 16));
        assert_eq!((size_of::<uint16x8_t>(), align_of::<uint16x8_t>()), (16, 16));
        assert_eq!((size_of::<uint32x4_t>(), align_of::<uint32x4_t>()), (16, 16));
        assert_eq!((size_of::<uint8x8_t>(), align_of::<uint8x8_t>()), (8, 8));
        assert_eq!((size_of::<uint8x16x4_t>(), align_of::<uint8x16x4_t>()), (64, 16));
        // what aes/src/armv8/expand.rs asserts before viewing the keys as [u32]
        assert!(align_of::<uint8x16_t>() >= align_of::<u32>());
    }

    #[test]
    fn sbox_known_values() {
        // FIPS-197 Figure 7 spot checks + bijectivity + inverse
        assert_eq!(SBOX[0x00], 0x63);
        assert_eq!(SBOX[0x01], 0x7c);
        assert_eq!(SBOX[0x53], 0xed);
        assert_eq!(SBOX[0x10], 0xca);
        assert_eq!(SBOX[0xff], 0x16);
        assert_eq!(SBOX[0xc9], 0xdd);
        assert_eq!(INV_SBOX[0x00], 0x52);
        assert_eq!(INV_SBOX[0x63], 0x00);
        assert_eq!(INV_SBOX[0xff], 0x7d);
        let mut seen = [false; 256];
        for x in 0..256 {
            assert!(!seen[SBOX[x] as usize]);
            seen[SBOX[x] as usize] = true;
            assert_eq!(INV_SBOX[SBOX[x] as usize] as usize, x);
        }
        // XOR of all S-box outputs of a bijection is 0; sum is 255*128
        let sum: u32 = SBOX.iter().map(|&b| b as u32).sum();
        assert_eq!(sum, 255 * 128);
    }

    #[test]
    fn gf_arithmetic() {
        // FIPS-197 4.2: {57} x {83} = {c1}; 4.2.1: {57} x {13} = {fe}
        assert_eq!(gmul(0x57, 0x83), 0xc1);
        assert_eq!(gmul(0x57, 0x13), 0xfe);
        for a in 1..=255u8 {
            assert_eq!(gmul(a, ginv(a)), 1);
        }
        assert_eq!(ginv(0), 0);
    }

    /// FIPS-197 Appendix C.1, round 1 of the cipher.
    #[test]
    fn fips197_c1_round1() {
        let pt = ld(hex("00112233445566778899aabbccddeeff"));
        let k0 = ld(hex("000102030405060708090a0b0c0d0e0f"));
        let k1 = ld(hex("d6aa74fdd2af72fadaa678f1d6ab76fe"));
        unsafe {
            // round[1].start
            assert_eq!(st(veorq_u8(pt, k0)), hex("00102030405060708090a0b0c0d0e0f0"));
            // AESE = AddRoundKey, then (SubBytes, ShiftRows) -> round[1].s_row
            let s_row = vaeseq_u8(pt, k0);
            assert_eq!(st(s_row), hex("6353e08c0960e104cd70b751bacad0e7"));
            // round[1].s_box == SubBytes only == InvShiftRows(s_row)
            assert_eq!(
                inv_shift_rows(st(s_row)),
                hex("63cab7040953d051cd60e0e7ba70e18c")
            );
            // AESMC -> round[1].m_col
            let m_col = vaesmcq_u8(s_row);
            assert_eq!(st(m_col), hex("5f72641557f5bc92f7be3b291db9f91a"));
            // round[2].start
            assert_eq!(st(veorq_u8(m_col, k1)), hex("89d810e8855ace682d1843d8cb128fe4"));
        }
    }

    /// FIPS-197 Appendix B, round 1 (the worked example with the 2b7e.. key).
    #[test]
    fn fips197_appendix_b_round1() {
        let pt = ld(hex("3243f6a8885a308d313198a2e0370734"));
        let k0 = ld(hex("2b7e151628aed2a6abf7158809cf4f3c"));
        unsafe {
            assert_eq!(st(veorq_u8(pt, k0)), hex("193de3bea0f4e22b9ac68d2ae9f84808"));
            let s_row = vaeseq_u8(pt, k0);
            assert_eq!(st(s_row), hex("d4bf5d30e0b452aeb84111f11e2798e5"));
            let m_col = vaesmcq_u8(s_row);
            assert_eq!(st(m_col), hex("046681e5e0cb199a48f8d37a2806264c"));
            let k1 = ld(hex("a0fafe1788542cb123a339392a6c7605"));
            assert_eq!(st(veorq_u8(m_col, k1)), hex("a49c7ff2689f352b6b5bea43026a5049"));
        }
    }

    /// Key expansion the way aes/src/armv8/expand.rs does it (SubWord through AESE with
    /// a zero key on a word-splat), then the instruction sequence of armv8/encdec.rs.
    fn expand128(key: [u8; 16]) -> [uint8x16_t; 11] {
        const RC: [u32; 10] = [0x01, 0x02, 0x04, 0x08, 0x10, 0x20, 0x40, 0x80, 0x1b, 0x36];
        let mut w = [0u32; 44];
        for i in 0..4 {
            w[i] = u32::from_le_bytes(key[4 * i..4 * i + 4].try_into().unwrap());
        }
        for i in 4..44 {
            let mut t = w[i - 1];
            if i % 4 == 0 {
                let sub = unsafe {
                    let v = vreinterpretq_u8_u32(vdupq_n_u32(t));
                    vgetq_lane_u32(vreinterpretq_u32_u8(vaeseq_u8(v, vdupq_n_u8(0))), 0)
                };
                t = sub.rotate_right(8) ^ RC[i / 4 - 1];
            }
            w[i] = w[i - 4] ^ t;
        }
        let mut out = [zero(); 11];
        for r in 0..11 {
            let mut b = [0u8; 16];
            for c in 0..4 {
                b[4 * c..4 * c + 4].copy_from_slice(&w[4 * r + c].to_le_bytes());
            }
            out[r] = ld(b);
        }
        out
    }

    fn enc128(k: &[uint8x16_t; 11], pt: [u8; 16]) -> [u8; 16] {
        unsafe {
            let mut b = ld(pt);
            for r in 0..9 {
                b = vaesmcq_u8(vaeseq_u8(b, k[r]));
            }
            b = vaeseq_u8(b, k[9]);
            st(veorq_u8(b, k[10]))
        }
    }

    fn dec128(k: &[uint8x16_t; 11], ct: [u8; 16]) -> [u8; 16] {
        unsafe {
            let mut ik = [zero(); 11];
            ik[0] = k[10];
            for i in 1..10 {
                ik[i] = vaesimcq_u8(k[10 - i]);
            }
            ik[10] = k[0];
            let mut b = ld(ct);
            for r in 0..9 {
                b = vaesimcq_u8(vaesdq_u8(b, ik[r]));
            }
            b = vaesdq_u8(b, ik[9]);
            st(veorq_u8(b, ik[10]))
        }
    }

    #[test]
    fn fips197_full_aes128() {
        // Appendix A.1 key schedule (first, second and last round key), Appendix B result
        let k = expand128(hex("2b7e151628aed2a6abf7158809cf4f3c"));
        assert_eq!(st(k[1]), hex("a0fafe1788542cb123a339392a6c7605"));
        assert_eq!(st(k[2]), hex("f2c295f27a96b9435935807a7359f67f"));
        assert_eq!(st(k[10]), hex("d014f9a8c9ee2589e13f0cc8b6630ca6"));
        let ct = enc128(&k, hex("3243f6a8885a308d313198a2e0370734"));
        assert_eq!(ct, hex("3925841d02dc09fbdc118597196a0b32"));
        assert_eq!(dec128(&k, ct), hex("3243f6a8885a308d313198a2e0370734"));

        // Appendix C.1
        let k = expand128(hex("000102030405060708090a0b0c0d0e0f"));
        assert_eq!(st(k[1]), hex("d6aa74fdd2af72fadaa678f1d6ab76fe"));
        assert_eq!(st(k[10]), hex("13111d7fe3944a17f307a78b4d2b30c5"));
        let ct = enc128(&k, hex("00112233445566778899aabbccddeeff"));
        assert_eq!(ct, hex("69c4e0d86a7b0430d8cdb78070b4c55a"));
        assert_eq!(dec128(&k, ct), hex("00112233445566778899aabbccddeeff"));
    }

    /// FIPS-197 Appendix C.1 inverse cipher, round 1: istart -> is_row/is_box -> ik_add ->
    /// round[2].istart.
    #[test]
    fn fips197_c1_inverse_round1() {
        let k = expand128(hex("000102030405060708090a0b0c0d0e0f"));
        unsafe {
            let ct = ld(hex("69c4e0d86a7b0430d8cdb78070b4c55a"));
            // round[1].istart = ct ^ k[10]
            assert_eq!(st(veorq_u8(ct, k[10])), hex("7ad5fda789ef4e272bca100b3d9ff59f"));
            // AESD = AddRoundKey, InvShiftRows, InvSubBytes: this is round[1].is_box of the
            // INVERSE CIPHER listing (is_row 7a9f1027.. first, then is_box) and equally
            // round[1].is_row of the EQUIVALENT INVERSE CIPHER listing (the two steps commute)
            let is_row = vaesdq_u8(ct, k[10]);
            assert_eq!(st(is_row), hex("bd6e7c3df2b5779e0b61216e8b10b689"));
            // InvSubBytes alone (equivalent inverse cipher round[1].is_box)
            assert_eq!(
                shift_rows(st(is_row)),
                hex("bdb52189f261b63d0b107c9e8b6e776e")
            );
            assert_eq!(st(k[9]), hex("549932d1f08557681093ed9cbe2c974e"));
            // direct inverse cipher (C.1 "INVERSE CIPHER"): round[1].ik_add = is_row-state ^ k[9]
            // then InvMixColumns gives round[2].istart
            let ik_add = veorq_u8(is_row, k[9]);
            assert_eq!(st(vaesimcq_u8(ik_add)), hex("54d990a16ba09ab596bbf40ea111702f"));
        }
    }

    #[test]
    fn mix_columns_vectors() {
        // classic MixColumns test columns
        let i = hex("db135345f20a225c01010101c6c6c6c6");
        let o = hex("8e4da1bc9fdc589d01010101c6c6c6c6");
        unsafe {
            assert_eq!(st(vaesmcq_u8(ld(i))), o);
            assert_eq!(st(vaesimcq_u8(ld(o))), i);
            // unit vectors give the matrix columns
            let e = hex("01000000000100000000010000000001");
            assert_eq!(st(vaesmcq_u8(ld(e))), hex("02010103030201010103020101010302"));
            assert_eq!(st(vaesimcq_u8(ld(e))), hex("0e090d0b0b0e090d0d0b0e09090d0b0e"));
        }
        let mut rng = Rng(1);
        for _ in 0..200 {
            let x = rng.block();
            unsafe {
                assert_eq!(st(vaesimcq_u8(vaesmcq_u8(ld(x)))), x);
                // AESE/AESD with zero key are mutually inverse (SubBytes and ShiftRows commute)
                assert_eq!(st(vaesdq_u8(vaeseq_u8(ld(x), zero()), zero())), x);
                // key enters by XOR *before* the byte substitution
                let k = rng.block();
                assert_eq!(
                    st(vaeseq_u8(ld(x), ld(k))),
                    st(vaeseq_u8(veorq_u8(ld(x), ld(k)), zero()))
                );
                assert_eq!(
                    st(vaesdq_u8(ld(x), ld(k))),
                    st(vaesdq_u8(veorq_u8(ld(x), ld(k)), zero()))
                );
            }
        }
    }

    #[test]
    fn shift_rows_layout() {
        // byte i -> value i ; FIPS-197 5.1.2: row r rotated left by r
        let mut s = [0u8; 16];
        for i in 0..16 {
            s[i] = i as u8;
        }
        assert_eq!(
            shift_rows(s),
            [0, 5, 10, 15, 4, 9, 14, 3, 8, 13, 2, 7, 12, 1, 6, 11]
        );
        assert_eq!(
            inv_shift_rows(s),
            [0, 13, 10, 7, 4, 1, 14, 11, 8, 5, 2, 15, 12, 9, 6, 3]
        );
        assert_eq!(inv_shift_rows(shift_rows(s)), s);
    }

    #[test]
    fn tbl4() {
        let mut t = [0u8; 64];
        for i in 0..64 {
            t[i] = (i as u8) * 3 + 1; // 1, 4, 7, ..
        }
        unsafe {
            let tab = uint8x16x4_t(
                vld1q_u8(t.as_ptr()),
                vld1q_u8(t.as_ptr().add(16)),
                vld1q_u8(t.as_ptr().add(32)),
                vld1q_u8(t.as_ptr().add(48)),
            );
            let idx = [0, 1, 15, 16, 17, 31, 32, 47, 48, 63, 64, 65, 127, 128, 200, 255];
            let r = st(vqtbl4q_u8(tab, ld(idx)));
            assert_eq!(
                r,
                [1, 4, 46, 49, 52, 94, 97, 142, 145, 190, 0, 0, 0, 0, 0, 0]
            );
        }
    }

    /// The four-way split lookup of kuznyechik/src/neon/backends.rs::sub_bytes is a
    /// 256-entry table lookup.
    #[test]
    fn tbl4_four_way_split_is_256_lookup() {
        let mut sbox = [0u8; 256];
        for i in 0..256 {
            sbox[i] = (i as u8).wrapping_mul(167).wrapping_add(13);
        }
        let mut rng = Rng(7);
        for _ in 0..50 {
            let x = rng.block();
            unsafe {
                let part = |o: usize| {
                    uint8x16x4_t(
                        vld1q_u8(sbox.as_ptr().add(o)),
                        vld1q_u8(sbox.as_ptr().add(o + 16)),
                        vld1q_u8(sbox.as_ptr().add(o + 32)),
                        vld1q_u8(sbox.as_ptr().add(o + 48)),
                    )
                };
                let c64 = vdupq_n_u8(64);
                let b0 = ld(x);
                let r1 = vqtbl4q_u8(part(0), b0);
                let b1 = vsubq_u8(b0, c64);
                let r2 = vqtbl4q_u8(part(64), b1);
                let b2 = vsubq_u8(b1, c64);
                let r3 = vqtbl4q_u8(part(128), b2);
                let b3 = vsubq_u8(b2, c64);
                let r4 = vqtbl4q_u8(part(192), b3);
                let r = st(vorrq_u8(vorrq_u8(r1, r2), vorrq_u8(r3, r4)));
                for i in 0..16 {
                    assert_eq!(r[i], sbox[x[i] as usize]);
                }
            }
        }
    }

    #[test]
    fn zip_combine_create() {
        let a = hex("000102030405060708090a0b0c0d0e0f");
        let b = hex("f0f1f2f3f4f5f6f7f8f9fafbfcfdfeff");
        unsafe {
            assert_eq!(
                st(vzip1q_u8(ld(a), ld(b))),
                hex("00f001f102f203f304f405f506f607f7")
            );
            assert_eq!(
                st(vzip2q_u8(ld(a), ld(b))),
                hex("08f809f90afa0bfb0cfc0dfd0efe0fff")
            );
            let ind = vcombine_u8(
                vcreate_u8(0x0706050403020100),
                vcreate_u8(0x0f0e0d0c0b0a0908),
            );
            assert_eq!(st(ind), a);
            assert_eq!(
                st(vcombine_u8(vcreate_u8(0x1122334455667788), vcreate_u8(1))),
                hex("88776655443322110100000000000000")
            );
        }
    }

    #[test]
    fn shifts_lanes_reinterprets() {
        let a = hex("0102030405060708f0e0d0c0b0a09080");
        unsafe {
            let h = vreinterpretq_u16_u8(ld(a));
            // u16 lanes, little-endian: 0x0201 0x0403 0x0605 0x0807 0xe0f0 0xc0d0 0xa0b0 0x8090
            assert_eq!(vgetq_lane_u16(h, 0), 0x0201);
            assert_eq!(vgetq_lane_u16(h, 3), 0x0807);
            assert_eq!(vgetq_lane_u16(h, 4), 0xe0f0);
            assert_eq!(vgetq_lane_u16(h, 7), 0x8090);
            let s = vshlq_n_u16(h, 4);
            assert_eq!(vgetq_lane_u16(s, 0), 0x2010);
            assert_eq!(vgetq_lane_u16(s, 4), 0x0f00); // 0xe0f0 << 4 truncated to 16 bits
            assert_eq!(vgetq_lane_u16(s, 7), 0x0900);
            assert_eq!(vgetq_lane_u16(vshlq_n_u16(h, 0), 5), 0xc0d0);
            assert_eq!(vgetq_lane_u16(vshlq_n_u16(h, 15), 0), 0x8000);
            assert_eq!(vgetq_lane_u16(vshlq_n_u16(h, 15), 7), 0x0000);
            assert_eq!(st(vreinterpretq_u8_u16(s))[..4], [0x10, 0x20, 0x30, 0x40]);

            let w = vreinterpretq_u32_u8(ld(a));
            assert_eq!(vgetq_lane_u32(w, 0), 0x04030201);
            assert_eq!(vgetq_lane_u32(w, 1), 0x08070605);
            assert_eq!(vgetq_lane_u32(w, 2), 0xc0d0e0f0);
            assert_eq!(vgetq_lane_u32(w, 3), 0x8090a0b0);
            assert_eq!(st(vreinterpretq_u8_u32(w)), a);

            let d = vdupq_n_u32(0xa1b2c3d4);
            assert_eq!(
                st(vreinterpretq_u8_u32(d)),
                hex("d4c3b2a1d4c3b2a1d4c3b2a1d4c3b2a1")
            );
            for l in 0..4 {
                assert_eq!(vgetq_lane_u32(d, l), 0xa1b2c3d4);
            }
            assert_eq!(st(vdupq_n_u8(0x5a)), [0x5a; 16]);

            // the kuznyechik `transform` index computation: zip(block, 0..16) << 4 as u16
            // gives (position << 12 | byte << 4): a byte offset into a [[u8;16];256] x 16 table
            let blk = hex("ffeeddccbbaa99887766554433221100");
            let ind = ld(hex("000102030405060708090a0b0c0d0e0f"));
            let l = vshlq_n_u16(vreinterpretq_u16_u8(vzip1q_u8(ld(blk), ind)), 4);
            let r = vshlq_n_u16(vreinterpretq_u16_u8(vzip2q_u8(ld(blk), ind)), 4);
            for i in 0..8 {
                assert_eq!(
                    vgetq_lane_u16(l, i as i32) as usize,
                    16 * (256 * i + blk[i] as usize)
                );
                assert_eq!(
                    vgetq_lane_u16(r, i as i32) as usize,
                    16 * (256 * (8 + i) + blk[8 + i] as usize)
                );
            }
        }
    }

    #[test]
    fn eor_orr_sub() {
        let a = hex("00ff0f5501800180fe7f10204080a5c3");
        let b = hex("ff00f0aa0180800001ff204080405a3c");
        unsafe {
            assert_eq!(st(veorq_u8(ld(a), ld(b))), hex("ffffffff00008180ff803060c0c0ffff"));
            assert_eq!(st(vorrq_u8(ld(a), ld(b))), hex("ffffffff01808180ffff3060c0c0ffff"));
            assert_eq!(st(vsubq_u8(ld(a), ld(b))), hex("01ff1fab00008180fd80f0e0c0404b87"));
        }
    }

    #[test]
    fn unaligned_load_store_footprint() {
        // loads/stores at every misalignment inside a guard buffer touch exactly 16 bytes
        let mut buf = [0xEEu8; 48];
        for off in 0..=32 {
            let src: [u8; 48] = core::array::from_fn(|i| i as u8);
            unsafe {
                let v = vld1q_u8(src.as_ptr().add(off));
                vst1q_u8(buf.as_mut_ptr().add(off), v);
            }
            for i in 0..48 {
                let want = if i >= off && i < off + 16 { i as u8 } else { 0xEE };
                assert_eq!(buf[i], want);
            }
            buf = [0xEE; 48];
        }
    }

    #[test]
    #[should_panic(expected = "lane out of range")]
    fn lane_range_checked() {
        unsafe {
            let w = vdupq_n_u32(1);
            let _ = vgetq_lane_u32(w, 4);
        }
    }

    // --------------------------------------------------------------------------------------
    // Hardware cross-check against AES-NI (not under Miri)
    // --------------------------------------------------------------------------------------

    #[cfg(all(not(miri), target_arch = "x86_64"))]
    mod hw {
        use super::*;
        use core::arch::x86_64::*;

        const N: usize = 10_000;

        #[target_feature(enable = "aes,sse2")]
        unsafe fn run() {
            let to = |b: [u8; 16]| unsafe { _mm_loadu_si128(b.as_ptr() as *const __m128i) };
            let from = |v: __m128i| -> [u8; 16] {
                let mut o = [0u8; 16];
                unsafe { _mm_storeu_si128(o.as_mut_ptr() as *mut __m128i, v) };
                o
            };
            let mut rng = Rng(0xA5A5_0001);
            for i in 0..N {
                // a few structured inputs first, then random
                let (x, k) = match i {
                    0 => ([0u8; 16], [0u8; 16]),
                    1 => ([0xff; 16], [0u8; 16]),
                    2 => ([0u8; 16], [0xff; 16]),
                    _ => (rng.block(), rng.block()),
                };
                let (mx, mk) = (ld(x), ld(k));
                let z = zero();
                unsafe {
                    // AESMC(AESE(x,0)) ^ k == AESENC(x,k)
                    assert_eq!(
                        st(veorq_u8(vaesmcq_u8(vaeseq_u8(mx, z)), mk)),
                        from(_mm_aesenc_si128(to(x), to(k)))
                    );
                    // AESIMC(AESD(x,0)) ^ k == AESDEC(x,k)
                    assert_eq!(
                        st(veorq_u8(vaesimcq_u8(vaesdq_u8(mx, z)), mk)),
                        from(_mm_aesdec_si128(to(x), to(k)))
                    );
                    // AESE(x,0) == AESENCLAST(x,0);  AESE(x,k) == AESENCLAST(x^k,0)
                    assert_eq!(
                        st(vaeseq_u8(mx, z)),
                        from(_mm_aesenclast_si128(to(x), _mm_setzero_si128()))
                    );
                    assert_eq!(
                        st(vaeseq_u8(mx, mk)),
                        from(_mm_aesenclast_si128(
                            _mm_xor_si128(to(x), to(k)),
                            _mm_setzero_si128()
                        ))
                    );
                    // AESD(x,0) == AESDECLAST(x,0);  AESD(x,k) == AESDECLAST(x^k,0)
                    assert_eq!(
                        st(vaesdq_u8(mx, z)),
                        from(_mm_aesdeclast_si128(to(x), _mm_setzero_si128()))
                    );
                    assert_eq!(
                        st(vaesdq_u8(mx, mk)),
                        from(_mm_aesdeclast_si128(
                            _mm_xor_si128(to(x), to(k)),
                            _mm_setzero_si128()
                        ))
                    );
                    // AESIMC == AESIMC
                    assert_eq!(st(vaesimcq_u8(mx)), from(_mm_aesimc_si128(to(x))));
                    // AESMC(x) == AESIMC^-1: AESENC(AESDECLAST(x,0),0) is MixColumns(x)
                    assert_eq!(
                        st(vaesmcq_u8(mx)),
                        from(_mm_aesenc_si128(
                            _mm_aesdeclast_si128(to(x), _mm_setzero_si128()),
                            _mm_setzero_si128()
                        ))
                    );
                }
            }
        }

        #[test]
        fn model_matches_aesni() {
            if !std::is_x86_feature_detected!("aes") {
                std::eprintln!("arm_model: AES-NI not present, hardware cross-check skipped");
                return;
            }
            unsafe { run() }
        }
    }
}
