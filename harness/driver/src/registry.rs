//! Registry of every concrete cipher type under test and of the construction routes that
//! lead to a usable instance (new, Enc+Dec pairs, conversions, clones, tweaked constructors).
use crate::dynciph::{DynDec, DynEnc, Inst, Shape};
use crate::refs;
use crate::rng::Rng;
use cipher::array::Array;
use cipher::consts::*;
use cipher::typenum::Unsigned;
use cipher::{AlgorithmName, BlockCipherDecrypt, BlockCipherEncrypt, Key, KeyInit, KeySizeUser};
use refmodels::RefCipher;
use std::panic::{catch_unwind, AssertUnwindSafe};
use std::sync::Arc;

pub enum Made {
    Ok(Inst),
    Rejected,
    Panic(String),
}
impl Made {
    pub fn ok(self) -> Option<Inst> {
        match self {
            Made::Ok(i) => Some(i),
            _ => None,
        }
    }
}

pub fn panic_msg(e: Box<dyn std::any::Any + Send>) -> String {
    if let Some(s) = e.downcast_ref::<&str>() {
        s.to_string()
    } else if let Some(s) = e.downcast_ref::<String>() {
        s.clone()
    } else {
        "non-string panic".into()
    }
}

fn guard(f: impl FnOnce() -> Option<Inst>) -> Made {
    match catch_unwind(AssertUnwindSafe(f)) {
        Ok(Some(i)) => Made::Ok(i),
        Ok(None) => Made::Rejected,
        Err(e) => Made::Panic(panic_msg(e)),
    }
}

pub type MakeFn = fn(&[u8]) -> Made;
pub type RefFn = fn(&[u8]) -> Option<Box<dyn RefCipher>>;

pub struct Entry {
    /// Rust path of the type, e.g. "aes::Aes128"
    pub name: String,
    /// construction route
    pub route: &'static str,
    /// reference-model family / conformance group
    pub family: &'static str,
    /// conformance property id (C02, C05..C10)
    pub prop: &'static str,
    /// crate directory in /repo
    pub krate: &'static str,
    /// accepted lengths of the key material `make` consumes
    pub key_lens: Vec<usize>,
    pub make: MakeFn,
    pub reference: RefFn,
    /// libcrypto EVP family (see ossl::evp_name), if any
    pub evp: Option<&'static str>,
    /// true if this is the canonical `new_from_slice` route of a public type
    pub primary: bool,
    /// true if the instance came from a shadow crate
    pub shadow: bool,
}
impl Entry {
    pub fn id(&self) -> String {
        format!("{}#{}", self.name, self.route)
    }
    pub fn gen_key(&self, rng: &mut Rng, class: usize) -> Vec<u8> {
        let l = self.key_lens[rng.below(self.key_lens.len())];
        crate::gen::gen(rng, l, class)
    }
}

// ------------------------------------------------------------------------------------------
// generic constructors

fn mk_new<T>(k: &[u8]) -> Made
where
    T: KeyInit + BlockCipherEncrypt + BlockCipherDecrypt + Send + Sync + 'static,
{
    guard(|| T::new_from_slice(k).ok().map(Inst::combined))
}
fn mk_fixed<T>(k: &[u8]) -> Made
where
    T: KeyInit + BlockCipherEncrypt + BlockCipherDecrypt + Send + Sync + 'static,
{
    guard(|| {
        let key = Key::<T>::try_from(k).ok()?;
        Some(Inst::combined(T::new(&key)))
    })
}
fn mk_clone<T>(k: &[u8]) -> Made
where
    T: KeyInit + Clone + BlockCipherEncrypt + BlockCipherDecrypt + Send + Sync + 'static,
{
    guard(|| {
        let a = T::new_from_slice(k).ok()?;
        let b = a.clone();
        drop(a);
        Some(Inst::combined(b))
    })
}
/// `clone_from` into an existing instance that was keyed differently (another accepted key
/// length where the type has several), source dropped before use.
fn mk_clone_from<T>(k: &[u8]) -> Made
where
    T: KeyInit + Clone + BlockCipherEncrypt + BlockCipherDecrypt + Send + Sync + 'static,
{
    guard(|| {
        let a = T::new_from_slice(k).ok()?;
        // the overwritten instance: first accepted length among a few candidates that differs from k's
        let mut other: Option<T> = None;
        for l in [32usize, 16, 24, 8, 56, 5, 128, 12, 9, 18, 64, 4, 1, 0, 255, 3, 7, 11, 13, 17, 20, 28, 31, 33, 41, 100, 200] {
            if l != k.len() {
                if let Ok(t) = T::new_from_slice(&vec![0xA7u8; l]) {
                    other = Some(t);
                    break;
                }
            }
        }
        let mut b = match other {
            Some(t) => t,
            None => T::new_from_slice(&k.iter().map(|x| !x).collect::<Vec<u8>>()).ok()?,
        };
        b.clone_from(&a);
        drop(a);
        Some(Inst::combined(b))
    })
}
/// `clone_from` into an instance keyed with a NEAR key: same length, only the last byte differs
/// (so any "nothing changed, skip the copy" shortcut keyed on a prefix of the state is exposed).
fn mk_clone_from_near<T>(k: &[u8]) -> Made
where
    T: KeyInit + Clone + BlockCipherEncrypt + BlockCipherDecrypt + Send + Sync + 'static,
{
    guard(|| {
        let a = T::new_from_slice(k).ok()?;
        let mut near = k.to_vec();
        if let Some(l) = near.last_mut() {
            *l ^= 0x5A;
        }
        let mut b = T::new_from_slice(&near).ok()?;
        b.clone_from(&a);
        drop(a);
        Some(Inst::combined(b))
    })
}
fn mk_pair<E, D>(k: &[u8]) -> Made
where
    E: KeyInit + BlockCipherEncrypt + Send + Sync + 'static,
    D: KeyInit + BlockCipherDecrypt + Send + Sync + 'static,
{
    guard(|| Some(Inst::pair(E::new_from_slice(k).ok()?, D::new_from_slice(k).ok()?)))
}
fn mk_pair_clone<E, D>(k: &[u8]) -> Made
where
    E: KeyInit + Clone + BlockCipherEncrypt + Send + Sync + 'static,
    D: KeyInit + Clone + BlockCipherDecrypt + Send + Sync + 'static,
{
    guard(|| {
        let e = E::new_from_slice(k).ok()?;
        let d = D::new_from_slice(k).ok()?;
        let (e2, d2) = (e.clone(), d.clone());
        drop(e);
        drop(d);
        Some(Inst::pair(e2, d2))
    })
}
/// Enc kept, Dec obtained by conversion from a reference to Enc; the source stays alive.
fn mk_dec_from_ref<E, D>(k: &[u8]) -> Made
where
    E: KeyInit + BlockCipherEncrypt + Send + Sync + 'static,
    D: for<'a> From<&'a E> + BlockCipherDecrypt + Send + Sync + 'static,
{
    guard(|| {
        let e = E::new_from_slice(k).ok()?;
        let d = D::from(&e);
        Some(Inst::pair(e, d))
    })
}
/// Dec by value from a clone of Enc; then a clone of the converted Dec, original dropped.
fn mk_dec_from_val<E, D>(k: &[u8]) -> Made
where
    E: KeyInit + Clone + BlockCipherEncrypt + Send + Sync + 'static,
    D: From<E> + Clone + BlockCipherDecrypt + Send + Sync + 'static,
{
    guard(|| {
        let e = E::new_from_slice(k).ok()?;
        let d = D::from(e.clone());
        let d2 = d.clone();
        drop(d);
        Some(Inst::pair(e, d2))
    })
}
/// Combined from &Enc, source dropped before use.
fn mk_comb_from_ref<E, T>(k: &[u8]) -> Made
where
    E: KeyInit,
    T: for<'a> From<&'a E> + BlockCipherEncrypt + BlockCipherDecrypt + Send + Sync + 'static,
{
    guard(|| {
        let e = E::new_from_slice(k).ok()?;
        let t = T::from(&e);
        drop(e);
        Some(Inst::combined(t))
    })
}
/// Combined from Enc by value, then cloned, original dropped.
fn mk_comb_from_val<E, T>(k: &[u8]) -> Made
where
    E: KeyInit,
    T: From<E> + Clone + BlockCipherEncrypt + BlockCipherDecrypt + Send + Sync + 'static,
{
    guard(|| {
        let e = E::new_from_slice(k).ok()?;
        let t = T::from(e);
        let t2 = t.clone();
        drop(t);
        Some(Inst::combined(t2))
    })
}
/// Enc -> clone -> Combined::from(&clone) ; Dec::from(clone by value) : a longer chain
fn mk_chain<E, T, D>(k: &[u8]) -> Made
where
    E: KeyInit + Clone + BlockCipherEncrypt + Send + Sync + 'static,
    T: for<'a> From<&'a E> + Clone + BlockCipherEncrypt + BlockCipherDecrypt + Send + Sync + 'static,
    D: From<E> + BlockCipherDecrypt + Send + Sync + 'static,
{
    guard(|| {
        let e = E::new_from_slice(k).ok()?;
        let e2 = e.clone();
        drop(e);
        let t = T::from(&e2);
        let d = D::from(e2);
        let t2 = t.clone();
        drop(t);
        // encrypt through the combined clone, decrypt through the converted Dec
        let enc: Arc<dyn DynEnc> = Arc::new(t2);
        Some(Inst { enc, dec: Arc::new(d) })
    })
}

// ------------------------------------------------------------------------------------------
// special wrappers

/// Threefish through the u64 block API (little-endian conversion done by the harness).
macro_rules! tf_u64 {
    ($w:ident, $t:ty, $nw:expr) => {
        pub struct $w(pub $t);
        impl DynEnc for $w {
            fn bs(&self) -> usize {
                $nw * 8
            }
            fn width(&self) -> usize {
                1
            }
            fn run(&self, _shape: Shape, inp: Option<&[u8]>, out: &mut [u8]) {
                if let Some(i) = inp {
                    out.copy_from_slice(i);
                }
                for b in out.chunks_exact_mut($nw * 8) {
                    let mut w = [0u64; $nw];
                    for (x, c) in w.iter_mut().zip(b.chunks_exact(8)) {
                        *x = u64::from_le_bytes(c.try_into().unwrap());
                    }
                    self.0.encrypt_block_u64(&mut w);
                    for (x, c) in w.iter().zip(b.chunks_exact_mut(8)) {
                        c.copy_from_slice(&x.to_le_bytes());
                    }
                }
            }
        }
        impl DynDec for $w {
            fn bs(&self) -> usize {
                $nw * 8
            }
            fn width(&self) -> usize {
                1
            }
            fn run(&self, _shape: Shape, inp: Option<&[u8]>, out: &mut [u8]) {
                if let Some(i) = inp {
                    out.copy_from_slice(i);
                }
                for b in out.chunks_exact_mut($nw * 8) {
                    let mut w = [0u64; $nw];
                    for (x, c) in w.iter_mut().zip(b.chunks_exact(8)) {
                        *x = u64::from_le_bytes(c.try_into().unwrap());
                    }
                    self.0.decrypt_block_u64(&mut w);
                    for (x, c) in w.iter().zip(b.chunks_exact_mut(8)) {
                        c.copy_from_slice(&x.to_le_bytes());
                    }
                }
            }
        }
    };
}
tf_u64!(Tf256U64, threefish::Threefish256, 4);
tf_u64!(Tf512U64, threefish::Threefish512, 8);
tf_u64!(Tf1024U64, threefish::Threefish1024, 16);

macro_rules! tf_makers {
    ($t:ty, $w:ident, $nw:expr, $tweak:ident, $tweak64:ident, $u64api:ident) => {
        /// key material = key || tweak(16)
        fn $tweak(k: &[u8]) -> Made {
            guard(|| {
                if k.len() != $nw * 8 + 16 {
                    return None;
                }
                let key: [u8; $nw * 8] = k[..$nw * 8].try_into().unwrap();
                let tw: [u8; 16] = k[$nw * 8..].try_into().unwrap();
                Some(Inst::combined(<$t>::new_with_tweak(&key, &tw)))
            })
        }
        fn $tweak64(k: &[u8]) -> Made {
            guard(|| {
                if k.len() != $nw * 8 + 16 {
                    return None;
                }
                let mut key = [0u64; $nw];
                for (x, c) in key.iter_mut().zip(k.chunks_exact(8)) {
                    *x = u64::from_le_bytes(c.try_into().unwrap());
                }
                let tw = [
                    u64::from_le_bytes(k[$nw * 8..$nw * 8 + 8].try_into().unwrap()),
                    u64::from_le_bytes(k[$nw * 8 + 8..].try_into().unwrap()),
                ];
                Some(Inst::combined(<$t>::new_with_tweak_u64(&key, &tw)))
            })
        }
        fn $u64api(k: &[u8]) -> Made {
            guard(|| {
                if k.len() != $nw * 8 + 16 {
                    return None;
                }
                let key: [u8; $nw * 8] = k[..$nw * 8].try_into().unwrap();
                let tw: [u8; 16] = k[$nw * 8..].try_into().unwrap();
                let a = Arc::new($w(<$t>::new_with_tweak(&key, &tw)));
                Some(Inst { enc: a.clone(), dec: a })
            })
        }
    };
}
tf_makers!(threefish::Threefish256, Tf256U64, 4, tf256_tweak, tf256_tweak64, tf256_u64api);
tf_makers!(threefish::Threefish512, Tf512U64, 8, tf512_tweak, tf512_tweak64, tf512_u64api);
tf_makers!(threefish::Threefish1024, Tf1024U64, 16, tf1024_tweak, tf1024_tweak64, tf1024_u64api);

/// `belt_block_raw` (encryption only) paired with BeltBlock's decryption.
pub struct BeltRaw(pub [u32; 8]);
impl DynEnc for BeltRaw {
    fn bs(&self) -> usize {
        16
    }
    fn width(&self) -> usize {
        1
    }
    fn run(&self, _shape: Shape, inp: Option<&[u8]>, out: &mut [u8]) {
        if let Some(i) = inp {
            out.copy_from_slice(i);
        }
        for b in out.chunks_exact_mut(16) {
            let mut x = [0u32; 4];
            for (w, c) in x.iter_mut().zip(b.chunks_exact(4)) {
                *w = u32::from_le_bytes(c.try_into().unwrap());
            }
            let y = belt_block::belt_block_raw(x, &self.0);
            for (w, c) in y.iter().zip(b.chunks_exact_mut(4)) {
                c.copy_from_slice(&w.to_le_bytes());
            }
        }
    }
}
fn belt_raw(k: &[u8]) -> Made {
    guard(|| {
        if k.len() != 32 {
            return None;
        }
        let mut key = [0u32; 8];
        for (w, c) in key.iter_mut().zip(k.chunks_exact(4)) {
            *w = u32::from_le_bytes(c.try_into().unwrap());
        }
        let d = belt_block::BeltBlock::new_from_slice(k).ok()?;
        Some(Inst { enc: Arc::new(BeltRaw(key)), dec: Arc::new(d) })
    })
}

/// Rc2 with explicit effective key length: key material = bits as 2 LE bytes || key (1..=128)
fn rc2_eff(k: &[u8]) -> Made {
    guard(|| {
        if k.len() < 3 || k.len() > 130 {
            return None;
        }
        let bits = u16::from_le_bytes([k[0], k[1]]) as usize;
        if bits == 0 || bits > 1024 {
            return None;
        }
        Some(Inst::combined(rc2::Rc2::new_with_eff_key_len(&k[2..], bits)))
    })
}
pub fn rc2_eff_key(rng: &mut Rng, class: usize) -> Vec<u8> {
    let len = 1 + rng.below(128);
    let bits = match rng.below(4) {
        0 => 8 * len,
        1 => [1usize, 7, 8, 9, 63, 64, 65, 127, 128, 129, 1023, 1024][rng.below(12)],
        _ => 1 + rng.below(1024),
    };
    let mut v = (bits as u16).to_le_bytes().to_vec();
    v.extend(crate::gen::gen(rng, len, class));
    v
}

// ------------------------------------------------------------------------------------------
// user-supplied GOST S-boxes: a `const fn` PRNG fills eight 16-nibble rows.
pub enum UserSbox<const SEED: u64> {}
const fn user_sbox(seed: u64) -> [[u8; 16]; 8] {
    let mut t = [[0u8; 16]; 8];
    if seed == 0 {
        return t; // all-zero table
    }
    let mut r = 0;
    if seed == 1 {
        while r < 8 {
            let mut c = 0;
            while c < 16 {
                t[r][c] = 15;
                c += 1;
            }
            r += 1;
        }
        return t;
    }
    let mut x: u64 = seed.wrapping_mul(0x9E3779B97F4A7C15) ^ 0xD1B54A32D192ED03;
    while r < 8 {
        let mut c = 0;
        while c < 16 {
            t[r][c] = c as u8;
            c += 1;
        }
        if seed < 6 {
            // arbitrary (generally non-bijective) nibble values
            c = 0;
            while c < 16 {
                x ^= x << 13;
                x ^= x >> 7;
                x ^= x << 17;
                t[r][c] = (x >> 33) as u8 & 15;
                c += 1;
            }
        } else {
            // Fisher-Yates permutation
            c = 15;
            while c > 0 {
                x ^= x << 13;
                x ^= x >> 7;
                x ^= x << 17;
                let j = ((x >> 33) % (c as u64 + 1)) as usize;
                let tmp = t[r][c];
                t[r][c] = t[r][j];
                t[r][j] = tmp;
                c -= 1;
            }
        }
        r += 1;
    }
    t
}
impl<const SEED: u64> magma::Sbox for UserSbox<SEED> {
    const NAME: &'static str = "User";
    const SBOX: [[u8; 16]; 8] = user_sbox(SEED);
}

/// User S-boxes whose `NAME` is long (OID-style names as in RFC 4357) and differs from its
/// neighbour only near the end: a formatter that builds the name in a fixed buffer, clips it or
/// keeps only a prefix no longer identifies the S-box parameter (seeded change C19-7).
macro_rules! long_sbox {
    ($($t:ident = $name:expr, $seed:expr);* $(;)?) => {
        $(pub enum $t {}
        impl magma::Sbox for $t {
            const NAME: &'static str = $name;
            const SBOX: [[u8; 16]; 8] = user_sbox($seed);
        })*
        /// (S::NAME, Debug text, AlgorithmName text) per long-named user S-box, key given
        pub fn long_sbox_names(k: &[u8]) -> Vec<(&'static str, String, String)> {
            vec![$((<$t as magma::Sbox>::NAME, t_debug::<magma::Gost89<$t>>(k).unwrap_or_default(), t_alg_name::<magma::Gost89<$t>>())),*]
        }
    };
}
long_sbox! {
    LongSbox17 = "MyCompanySboxNo17", 17;
    LongSbox18 = "MyCompanySboxNo18", 18;
    LongSboxA = "id-Gost28147-89-CryptoPro-A-ParamSet", 21;
    LongSboxB = "id-Gost28147-89-CryptoPro-B-ParamSet", 22;
    LongSbox70a = "urn:example:gost28147-89:sbox:experimental:2026:variant-with-long-name-a", 23;
    LongSbox70b = "urn:example:gost28147-89:sbox:experimental:2026:variant-with-long-name-b", 24;
    LongSbox300 = "S0123456789abcdef0123456789abcdef0123456789abcdef0123456789abcdef0123456789abcdef0123456789abcdef0123456789abcdef0123456789abcdef0123456789abcdef0123456789abcdef0123456789abcdef0123456789abcdef0123456789abcdef0123456789abcdef0123456789abcdef0123456789abcdef0123456789abcdef0123456789abcdef0123456789abcdef-end", 25;
    UnicodeSbox = "Набор-параметров-ГОСТ-28147-89-пользовательский-№1", 26;
}

fn ref_gost<S: magma::Sbox>(k: &[u8]) -> Option<Box<dyn RefCipher>> {
    refs::gost89(k, &S::SBOX)
}
/// The bundled S-box marker types live in a private module; recover the table the type was
/// built over through the public `Sbox` trait of its parameter.
pub trait SboxOf {
    const TABLE: [[u8; 16]; 8];
    const SNAME: &'static str;
}
impl<S: magma::Sbox> SboxOf for magma::Gost89<S> {
    const TABLE: [[u8; 16]; 8] = S::SBOX;
    const SNAME: &'static str = S::NAME;
}
/// Bundled sets: the reference for a public alias is keyed with the frozen published table that
/// the alias is documented to stand for - not with whatever table the alias currently resolves to
/// (a typo in a table or a mis-wired alias must not carry over to the oracle).
macro_rules! ref_gost_alias {
    ($($f:ident => $t:ident),*) => {$(
        fn $f(k: &[u8]) -> Option<Box<dyn RefCipher>> {
            refs::gost89(k, &crate::bundled_sboxes::$t)
        }
    )*};
}
ref_gost_alias!(ref_gost_magma => TC26, ref_gost_test => TESTSBOX, ref_gost_cpa => CRYPTOPROA, ref_gost_cpb => CRYPTOPROB, ref_gost_cpc => CRYPTOPROC, ref_gost_cpd => CRYPTOPROD);
/// (type alias, S::NAME, the table the crate currently exports) for the six bundled sets
pub fn bundled_tables() -> Vec<(&'static str, &'static str, &'static str, [[u8; 16]; 8])> {
    // (public alias, name of the published set it stands for, S::NAME it currently resolves to, table it currently exports)
    vec![
        ("magma::Magma", "Tc26", <magma::Magma as SboxOf>::SNAME, <magma::Magma as SboxOf>::TABLE),
        ("magma::Gost89Test", "TestSbox", <magma::Gost89Test as SboxOf>::SNAME, <magma::Gost89Test as SboxOf>::TABLE),
        ("magma::Gost89CryptoProA", "CryptoProA", <magma::Gost89CryptoProA as SboxOf>::SNAME, <magma::Gost89CryptoProA as SboxOf>::TABLE),
        ("magma::Gost89CryptoProB", "CryptoProB", <magma::Gost89CryptoProB as SboxOf>::SNAME, <magma::Gost89CryptoProB as SboxOf>::TABLE),
        ("magma::Gost89CryptoProC", "CryptoProC", <magma::Gost89CryptoProC as SboxOf>::SNAME, <magma::Gost89CryptoProC as SboxOf>::TABLE),
        ("magma::Gost89CryptoProD", "CryptoProD", <magma::Gost89CryptoProD as SboxOf>::SNAME, <magma::Gost89CryptoProD as SboxOf>::TABLE),
    ]
}

// ------------------------------------------------------------------------------------------
// reference adapters with parameters in the type

fn ref_rc5<W: Rc5Bits, R: Unsigned, B: Unsigned>(k: &[u8]) -> Option<Box<dyn RefCipher>> {
    if k.len() != B::USIZE {
        return None;
    }
    refs::rc5(W::BITS, R::U32, k)
}
pub trait Rc5Bits {
    const BITS: u32;
}
impl Rc5Bits for u8 {
    const BITS: u32 = 8;
}
impl Rc5Bits for u16 {
    const BITS: u32 = 16;
}
impl Rc5Bits for u32 {
    const BITS: u32 = 32;
}
impl Rc5Bits for u64 {
    const BITS: u32 = 64;
}
impl Rc5Bits for u128 {
    const BITS: u32 = 128;
}

// ------------------------------------------------------------------------------------------

fn e(
    name: &str,
    route: &'static str,
    family: &'static str,
    prop: &'static str,
    krate: &'static str,
    key_lens: Vec<usize>,
    make: MakeFn,
    reference: RefFn,
    evp: Option<&'static str>,
    primary: bool,
) -> Entry {
    Entry { name: name.to_string(), route, family, prop, krate, key_lens, make, reference, evp, primary, shadow: false }
}

macro_rules! aes_family {
    ($v:ident, $krate:ident, $pfx:expr, $shadow:expr, $comb:ident, $enc:ident, $dec:ident, $kl:expr, $rf:path) => {{
        let n = |s: &str| format!("{}::{}", $pfx, s);
        let mut add = |name: String, route: &'static str, make: MakeFn, primary: bool| {
            let mut x = e(&name, route, "aes", "C02", "aes", vec![$kl], make, $rf, Some("aes"), primary);
            x.shadow = $shadow;
            $v.push(x);
        };
        add(n(stringify!($comb)), "new", mk_new::<$krate::$comb>, true);
        add(n(stringify!($comb)), "new_fixed", mk_fixed::<$krate::$comb>, false);
        add(n(stringify!($comb)), "clone", mk_clone::<$krate::$comb>, false);
        add(n(stringify!($comb)), "clone_from", mk_clone_from::<$krate::$comb>, false);
        add(n(stringify!($comb)), "clone_from_near", mk_clone_from_near::<$krate::$comb>, false);
        add(n(stringify!($comb)), "from_enc_ref", mk_comb_from_ref::<$krate::$enc, $krate::$comb>, false);
        add(n(stringify!($comb)), "from_enc_val+clone", mk_comb_from_val::<$krate::$enc, $krate::$comb>, false);
        add(n(concat!(stringify!($enc), "+", stringify!($dec))), "new+new", mk_pair::<$krate::$enc, $krate::$dec>, true);
        add(n(concat!(stringify!($enc), "+", stringify!($dec))), "clone+clone", mk_pair_clone::<$krate::$enc, $krate::$dec>, false);
        add(n(concat!(stringify!($enc), "+", stringify!($dec))), "new+from_enc_ref", mk_dec_from_ref::<$krate::$enc, $krate::$dec>, false);
        add(n(concat!(stringify!($enc), "+", stringify!($dec))), "new+from_enc_val+clone", mk_dec_from_val::<$krate::$enc, $krate::$dec>, false);
        add(n(concat!(stringify!($comb), "+", stringify!($dec))), "chain", mk_chain::<$krate::$enc, $krate::$comb, $krate::$dec>, false);
    }};
}

macro_rules! kuz_family {
    ($v:ident, $krate:ident, $pfx:expr, $shadow:expr) => {{
        let n = |s: &str| format!("{}::{}", $pfx, s);
        let mut add = |name: String, route: &'static str, make: MakeFn, primary: bool| {
            let mut x = e(&name, route, "kuznyechik", "C07", "kuznyechik", vec![32], make, refs::kuznyechik, None, primary);
            x.shadow = $shadow;
            $v.push(x);
        };
        add(n("Kuznyechik"), "new", mk_new::<$krate::Kuznyechik>, true);
        add(n("Kuznyechik"), "new_fixed", mk_fixed::<$krate::Kuznyechik>, false);
        add(n("Kuznyechik"), "clone", mk_clone::<$krate::Kuznyechik>, false);
        add(n("Kuznyechik"), "clone_from", mk_clone_from::<$krate::Kuznyechik>, false);
        add(n("Kuznyechik"), "clone_from_near", mk_clone_from_near::<$krate::Kuznyechik>, false);
        add(n("Kuznyechik"), "from_enc_ref", mk_comb_from_ref::<$krate::KuznyechikEnc, $krate::Kuznyechik>, false);
        add(n("Kuznyechik"), "from_enc_val+clone", mk_comb_from_val::<$krate::KuznyechikEnc, $krate::Kuznyechik>, false);
        add(n("KuznyechikEnc+KuznyechikDec"), "new+new", mk_pair::<$krate::KuznyechikEnc, $krate::KuznyechikDec>, true);
        add(n("KuznyechikEnc+KuznyechikDec"), "clone+clone", mk_pair_clone::<$krate::KuznyechikEnc, $krate::KuznyechikDec>, false);
        add(n("KuznyechikEnc+KuznyechikDec"), "new+from_enc_ref", mk_dec_from_ref::<$krate::KuznyechikEnc, $krate::KuznyechikDec>, false);
        add(n("KuznyechikEnc+KuznyechikDec"), "new+from_enc_val+clone", mk_dec_from_val::<$krate::KuznyechikEnc, $krate::KuznyechikDec>, false);
        add(n("Kuznyechik+KuznyechikDec"), "chain", mk_chain::<$krate::KuznyechikEnc, $krate::Kuznyechik, $krate::KuznyechikDec>, false);
    }};
}

macro_rules! simple {
    ($v:ident, $t:ty, $name:expr, $family:expr, $prop:expr, $krate:expr, $lens:expr, $rf:path, $evp:expr) => {{
        $v.push(e($name, "new", $family, $prop, $krate, $lens, mk_new::<$t>, $rf, $evp, true));
        $v.push(e($name, "new_fixed", $family, $prop, $krate, vec![<$t as KeySizeUser>::KeySize::USIZE], mk_fixed::<$t>, $rf, $evp, false));
        $v.push(e($name, "clone", $family, $prop, $krate, $lens, mk_clone::<$t>, $rf, $evp, false));
        $v.push(e($name, "clone_from", $family, $prop, $krate, $lens, mk_clone_from::<$t>, $rf, $evp, false));
        $v.push(e($name, "clone_from_near", $family, $prop, $krate, $lens, mk_clone_from_near::<$t>, $rf, $evp, false));
    }};
}
macro_rules! simple_noclone {
    ($v:ident, $t:ty, $name:expr, $family:expr, $prop:expr, $krate:expr, $lens:expr, $rf:path, $evp:expr) => {{
        $v.push(e($name, "new", $family, $prop, $krate, $lens, mk_new::<$t>, $rf, $evp, true));
        $v.push(e($name, "new_fixed", $family, $prop, $krate, vec![<$t as KeySizeUser>::KeySize::USIZE], mk_fixed::<$t>, $rf, $evp, false));
    }};
}

macro_rules! rc5_grid {
    ($v:ident; $( ($w:ty, $r:ty, $b:ty) ),* $(,)?) => {$(
        {
            let name = format!("rc5::RC5<{},U{},U{}>", stringify!($w), <$r as Unsigned>::USIZE, <$b as Unsigned>::USIZE);
            $v.push(e(&name, "new", "rc5", "C10", "rc5", vec![<$b as Unsigned>::USIZE], mk_new::<rc5::RC5<$w, $r, $b>>, ref_rc5::<$w, $r, $b>, None, true));
            $v.push(e(&name, "clone", "rc5", "C10", "rc5", vec![<$b as Unsigned>::USIZE], mk_clone::<rc5::RC5<$w, $r, $b>>, ref_rc5::<$w, $r, $b>, None, false));
        }
    )*};
}

macro_rules! gost_user {
    ($v:ident; $($seed:expr),*) => {$(
        {
            let name = format!("magma::Gost89<UserSbox<{}>>", $seed);
            $v.push(e(&name, "new", "gost89", "C07", "magma", vec![32], mk_new::<magma::Gost89<UserSbox<$seed>>>, ref_gost::<UserSbox<$seed>>, None, true));
            $v.push(e(&name, "clone", "gost89", "C07", "magma", vec![32], mk_clone::<magma::Gost89<UserSbox<$seed>>>, ref_gost::<UserSbox<$seed>>, None, false));
        }
    )*};
}

pub fn entries() -> Vec<Entry> {
    let mut v: Vec<Entry> = Vec::new();
    // ---- AES (real crate: whatever backend this build/configuration selects)
    aes_family!(v, aes, "aes", false, Aes128, Aes128Enc, Aes128Dec, 16, refs::aes);
    aes_family!(v, aes, "aes", false, Aes192, Aes192Enc, Aes192Dec, 24, refs::aes);
    aes_family!(v, aes, "aes", false, Aes256, Aes256Enc, Aes256Dec, 32, refs::aes);
    #[cfg(feature = "shadows")]
    {
        aes_family!(v, aes_armv8, "S:aes_armv8", true, Aes128, Aes128Enc, Aes128Dec, 16, refs::aes);
        aes_family!(v, aes_armv8, "S:aes_armv8", true, Aes192, Aes192Enc, Aes192Dec, 24, refs::aes);
        aes_family!(v, aes_armv8, "S:aes_armv8", true, Aes256, Aes256Enc, Aes256Dec, 32, refs::aes);
        aes_family!(v, aes_soft32, "S:aes_soft32", true, Aes128, Aes128Enc, Aes128Dec, 16, refs::aes);
        aes_family!(v, aes_soft32, "S:aes_soft32", true, Aes192, Aes192Enc, Aes192Dec, 24, refs::aes);
        aes_family!(v, aes_soft32, "S:aes_soft32", true, Aes256, Aes256Enc, Aes256Dec, 32, refs::aes);
        aes_family!(v, aes_soft32c, "S:aes_soft32c", true, Aes128, Aes128Enc, Aes128Dec, 16, refs::aes);
        aes_family!(v, aes_soft32c, "S:aes_soft32c", true, Aes192, Aes192Enc, Aes192Dec, 24, refs::aes);
        aes_family!(v, aes_soft32c, "S:aes_soft32c", true, Aes256, Aes256Enc, Aes256Dec, 32, refs::aes);
    }
    // ---- ARIA / Camellia / SM4
    simple!(v, aria::Aria128, "aria::Aria128", "aria", "C06", "aria", vec![16], refs::aria, Some("aria"));
    simple!(v, aria::Aria192, "aria::Aria192", "aria", "C06", "aria", vec![24], refs::aria, Some("aria"));
    simple!(v, aria::Aria256, "aria::Aria256", "aria", "C06", "aria", vec![32], refs::aria, Some("aria"));
    simple!(v, camellia::Camellia128, "camellia::Camellia128", "camellia", "C06", "camellia", vec![16], refs::camellia, Some("camellia"));
    simple!(v, camellia::Camellia192, "camellia::Camellia192", "camellia", "C06", "camellia", vec![24], refs::camellia, Some("camellia"));
    simple!(v, camellia::Camellia256, "camellia::Camellia256", "camellia", "C06", "camellia", vec![32], refs::camellia, Some("camellia"));
    simple!(v, sm4::Sm4, "sm4::Sm4", "sm4", "C06", "sm4", vec![16], refs::sm4, Some("sm4"));
    // ---- DES family
    simple!(v, des::Des, "des::Des", "des", "C05", "des", vec![8], refs::des, Some("des"));
    simple!(v, des::TdesEde3, "des::TdesEde3", "tdes-ede3", "C05", "des", vec![24], refs::tdes_ede3, Some("tdes-ede3"));
    simple!(v, des::TdesEde2, "des::TdesEde2", "tdes-ede2", "C05", "des", vec![16], refs::tdes_ede2, Some("tdes-ede2"));
    simple!(v, des::TdesEee3, "des::TdesEee3", "tdes-eee3", "C05", "des", vec![24], refs::tdes_eee3, None);
    simple!(v, des::TdesEee2, "des::TdesEee2", "tdes-eee2", "C05", "des", vec![16], refs::tdes_eee2, None);
    // ---- Kuznyechik / Magma / BelT
    kuz_family!(v, kuznyechik, "kuznyechik", false);
    #[cfg(feature = "shadows")]
    kuz_family!(v, kuz_neon, "S:kuz_neon", true);
    simple!(v, magma::Magma, "magma::Magma", "gost89", "C07", "magma", vec![32], ref_gost_magma, None);
    simple!(v, magma::Gost89Test, "magma::Gost89Test", "gost89", "C07", "magma", vec![32], ref_gost_test, None);
    simple!(v, magma::Gost89CryptoProA, "magma::Gost89CryptoProA", "gost89", "C07", "magma", vec![32], ref_gost_cpa, None);
    simple!(v, magma::Gost89CryptoProB, "magma::Gost89CryptoProB", "gost89", "C07", "magma", vec![32], ref_gost_cpb, None);
    simple!(v, magma::Gost89CryptoProC, "magma::Gost89CryptoProC", "gost89", "C07", "magma", vec![32], ref_gost_cpc, None);
    simple!(v, magma::Gost89CryptoProD, "magma::Gost89CryptoProD", "gost89", "C07", "magma", vec![32], ref_gost_cpd, None);
    gost_user!(v; 0, 1, 2, 3, 4, 5, 6, 7, 8, 9, 10, 11, 12, 13, 14, 15);
    simple!(v, belt_block::BeltBlock, "belt_block::BeltBlock", "belt", "C07", "belt-block", vec![32], refs::belt, None);
    v.push(e("belt_block::belt_block_raw+BeltBlock", "raw", "belt", "C07", "belt-block", vec![32], belt_raw, refs::belt, None, false));
    // ---- Serpent / Twofish / CAST-256
    simple!(v, serpent::Serpent, "serpent::Serpent", "serpent", "C08", "serpent", (16..=32).collect(), refs::serpent, None);
    simple!(v, twofish::Twofish, "twofish::Twofish", "twofish", "C08", "twofish", vec![16, 24, 32], refs::twofish, None);
    simple!(v, cast6::Cast6, "cast6::Cast6", "cast6", "C08", "cast6", vec![16, 20, 24, 28, 32], refs::cast6, None);
    // ---- Blowfish / CAST5 / IDEA / RC2 / XTEA
    simple!(v, blowfish::Blowfish, "blowfish::Blowfish", "blowfish", "C09", "blowfish", (4..=56).collect(), refs::blowfish, Some("blowfish"));
    simple!(v, blowfish::BlowfishLE, "blowfish::BlowfishLE", "blowfish-le", "C09", "blowfish", (4..=56).collect(), refs::blowfish_le, None);
    simple!(v, cast5::Cast5, "cast5::Cast5", "cast5", "C09", "cast5", (5..=16).collect(), refs::cast5, Some("cast5"));
    simple!(v, idea::Idea, "idea::Idea", "idea", "C09", "idea", vec![16], refs::idea, None);
    simple!(v, rc2::Rc2, "rc2::Rc2", "rc2", "C09", "rc2", (1..=128).collect(), refs::rc2, None);
    v.push(e("rc2::Rc2", "new_with_eff_key_len", "rc2-eff", "C09", "rc2", vec![], rc2_eff, refs::rc2_eff, None, false));
    simple_noclone!(v, xtea::Xtea, "xtea::Xtea", "xtea", "C09", "xtea", vec![16], refs::xtea, None);
    // ---- Speck / Threefish / GIFT / RC5
    simple!(v, speck_cipher::Speck32_64, "speck_cipher::Speck32_64", "speck", "C10", "speck", vec![8], refs::speck32_64, None);
    simple!(v, speck_cipher::Speck48_72, "speck_cipher::Speck48_72", "speck", "C10", "speck", vec![9], refs::speck48_72, None);
    simple!(v, speck_cipher::Speck48_96, "speck_cipher::Speck48_96", "speck", "C10", "speck", vec![12], refs::speck48_96, None);
    simple!(v, speck_cipher::Speck64_96, "speck_cipher::Speck64_96", "speck", "C10", "speck", vec![12], refs::speck64_96, None);
    simple!(v, speck_cipher::Speck64_128, "speck_cipher::Speck64_128", "speck", "C10", "speck", vec![16], refs::speck64_128, None);
    simple!(v, speck_cipher::Speck96_96, "speck_cipher::Speck96_96", "speck", "C10", "speck", vec![12], refs::speck96_96, None);
    simple!(v, speck_cipher::Speck96_144, "speck_cipher::Speck96_144", "speck", "C10", "speck", vec![18], refs::speck96_144, None);
    simple!(v, speck_cipher::Speck128_128, "speck_cipher::Speck128_128", "speck", "C10", "speck", vec![16], refs::speck128_128, None);
    simple!(v, speck_cipher::Speck128_192, "speck_cipher::Speck128_192", "speck", "C10", "speck", vec![24], refs::speck128_192, None);
    simple!(v, speck_cipher::Speck128_256, "speck_cipher::Speck128_256", "speck", "C10", "speck", vec![32], refs::speck128_256, None);
    simple!(v, threefish::Threefish256, "threefish::Threefish256", "threefish", "C10", "threefish", vec![32], refs::threefish_zero, None);
    simple!(v, threefish::Threefish512, "threefish::Threefish512", "threefish", "C10", "threefish", vec![64], refs::threefish_zero, None);
    simple!(v, threefish::Threefish1024, "threefish::Threefish1024", "threefish", "C10", "threefish", vec![128], refs::threefish_zero, None);
    v.push(e("threefish::Threefish256", "new_with_tweak", "threefish-tweak", "C10", "threefish", vec![48], tf256_tweak, refs::threefish_tweak, None, false));
    v.push(e("threefish::Threefish256", "new_with_tweak_u64", "threefish-tweak", "C10", "threefish", vec![48], tf256_tweak64, refs::threefish_tweak, None, false));
    v.push(e("threefish::Threefish256", "tweak+block_u64", "threefish-tweak", "C10", "threefish", vec![48], tf256_u64api, refs::threefish_tweak, None, false));
    v.push(e("threefish::Threefish512", "new_with_tweak", "threefish-tweak", "C10", "threefish", vec![80], tf512_tweak, refs::threefish_tweak, None, false));
    v.push(e("threefish::Threefish512", "new_with_tweak_u64", "threefish-tweak", "C10", "threefish", vec![80], tf512_tweak64, refs::threefish_tweak, None, false));
    v.push(e("threefish::Threefish512", "tweak+block_u64", "threefish-tweak", "C10", "threefish", vec![80], tf512_u64api, refs::threefish_tweak, None, false));
    v.push(e("threefish::Threefish1024", "new_with_tweak", "threefish-tweak", "C10", "threefish", vec![144], tf1024_tweak, refs::threefish_tweak, None, false));
    v.push(e("threefish::Threefish1024", "new_with_tweak_u64", "threefish-tweak", "C10", "threefish", vec![144], tf1024_tweak64, refs::threefish_tweak, None, false));
    v.push(e("threefish::Threefish1024", "tweak+block_u64", "threefish-tweak", "C10", "threefish", vec![144], tf1024_u64api, refs::threefish_tweak, None, false));
    simple!(v, gift_cipher::Gift128, "gift_cipher::Gift128", "gift128", "C10", "gift", vec![16], refs::gift128, None);
    rc5_grid!(v;
        // the six parameter triples of the suite
        (u8, U12, U4), (u16, U16, U8), (u32, U12, U16), (u32, U16, U16), (u64, U24, U24), (u128, U28, U32),
        // r = 0, 1, 2, 255
        (u8, U0, U4), (u16, U0, U8), (u32, U0, U16), (u64, U0, U16), (u128, U0, U16),
        (u8, U1, U5), (u16, U1, U7), (u32, U1, U9), (u64, U1, U11), (u128, U1, U13),
        (u8, U2, U16), (u16, U2, U16), (u32, U2, U16), (u64, U2, U16), (u128, U2, U16),
        (u8, U255, U16), (u16, U255, U3), (u32, U255, U16), (u64, U255, U255), (u128, U255, U17),
        // b = 0 (spec: c = max(1, ceil(b/u)) = 1)
        (u8, U12, U0), (u16, U12, U0), (u32, U12, U0), (u64, U12, U0), (u128, U12, U0), (u32, U0, U0),
        // b = 1, odd b, b not a multiple of w/8, b = 255
        (u8, U12, U1), (u16, U12, U1), (u32, U12, U1), (u64, U12, U1), (u128, U12, U1),
        (u8, U16, U3), (u16, U16, U3), (u32, U16, U3), (u64, U16, U3), (u128, U16, U3),
        (u8, U20, U5), (u16, U20, U5), (u32, U20, U5), (u64, U20, U5), (u128, U20, U5),
        (u16, U12, U9), (u32, U12, U7), (u32, U12, U13), (u32, U12, U15), (u32, U12, U17), (u64, U12, U9), (u64, U12, U15), (u64, U12, U17), (u128, U12, U15), (u128, U12, U17), (u128, U12, U31), (u128, U12, U33),
        (u8, U12, U255), (u16, U12, U255), (u32, U12, U255), (u64, U12, U255), (u128, U12, U255),
        // b = 8, 16, 24, 32 across word sizes and round counts
        (u8, U12, U8), (u8, U20, U16), (u8, U16, U24), (u8, U12, U32),
        (u16, U12, U16), (u16, U20, U24), (u16, U12, U32), (u16, U16, U16),
        (u32, U12, U8), (u32, U20, U16), (u32, U12, U24), (u32, U12, U32), (u32, U20, U32), (u32, U16, U24),
        (u64, U12, U8), (u64, U16, U16), (u64, U20, U24), (u64, U12, U32), (u64, U20, U32),
        (u128, U12, U8), (u128, U16, U16), (u128, U20, U24), (u128, U12, U32), (u128, U20, U64),
        (u32, U12, U64), (u32, U12, U128), (u64, U12, U128), (u16, U12, U100), (u8, U12, U200),
        // large round counts; more key words than table words with a partial last word (c > t, b % u != 0)
        (u32, U200, U16), (u8, U128, U8), (u64, U127, U9), (u16, U254, U2), (u128, U100, U1),
        (u16, U1, U9), (u32, U0, U13), (u64, U1, U41), (u128, U0, U255), (u16, U0, U255), (u32, U2, U31), (u64, U0, U23),
    );
    v
}

// ------------------------------------------------------------------------------------------
// per-type operations (constructor contract, names, weak keys, cloning)

pub enum SliceOutcome {
    Ok,
    Err,
    Panic(String),
}

pub struct TypeInfo {
    pub name: String,
    /// Rust identifier of the type (last path segment incl. generics as written by users)
    pub ident: String,
    pub krate: &'static str,
    pub key_size: usize,
    pub block_size: usize,
    /// which slice lengths must be accepted by `new_from_slice`
    pub accepts: fn(usize) -> bool,
    pub from_slice: fn(&[u8]) -> SliceOutcome,
    /// weak_key_test on exactly key_size bytes: Some(true) = flagged weak
    pub weak: fn(&[u8]) -> Option<bool>,
    /// new_checked on exactly key_size bytes: None = wrong length; Some(None) = rejected; Some(Some(inst))
    pub new_checked: fn(&[u8]) -> Option<Option<Inst>>,
    pub new_fixed: fn(&[u8]) -> Option<Inst>,
    pub debug: Option<fn(&[u8]) -> Option<String>>,
    pub alg_name: Option<fn() -> String>,
    /// what the weak-key oracle is: "aes", "des", "tdes2", "tdes3", "never"
    pub weak_rule: &'static str,
    /// names: family word and numeric parameters expected in the AlgorithmName, in order
    pub name_family: &'static [&'static str],
    pub name_params: Vec<String>,
    /// has both directions itself (combined type)
    pub combined: bool,
}

fn t_from_slice<T: KeyInit>(k: &[u8]) -> SliceOutcome {
    match catch_unwind(AssertUnwindSafe(|| T::new_from_slice(k).is_ok())) {
        Ok(true) => SliceOutcome::Ok,
        Ok(false) => SliceOutcome::Err,
        Err(e) => SliceOutcome::Panic(panic_msg(e)),
    }
}
fn t_weak<T: KeyInit>(k: &[u8]) -> Option<bool> {
    let key = Key::<T>::try_from(k).ok()?;
    Some(T::weak_key_test(&key).is_err())
}
fn t_new_checked<T: KeyInit + BlockCipherEncrypt + BlockCipherDecrypt + Send + Sync + 'static>(k: &[u8]) -> Option<Option<Inst>> {
    let key = Key::<T>::try_from(k).ok()?;
    Some(T::new_checked(&key).ok().map(Inst::combined))
}
fn t_new_fixed<T: KeyInit + BlockCipherEncrypt + BlockCipherDecrypt + Send + Sync + 'static>(k: &[u8]) -> Option<Inst> {
    let key = Key::<T>::try_from(k).ok()?;
    Some(Inst::combined(T::new(&key)))
}
fn t_debug<T: KeyInit + core::fmt::Debug>(k: &[u8]) -> Option<String> {
    let t = T::new_from_slice(k).ok()?;
    // a panic while formatting is an observation about Debug, not about construction
    match catch_unwind(AssertUnwindSafe(|| (format!("{:?}", t), format!("{:#?}", t)))) {
        // the pretty form is appended only when it says something else than the plain form
        Ok((s, pretty)) => Some(if pretty.split_whitespace().collect::<String>() == s.split_whitespace().collect::<String>() { s } else { format!("{} /* {{:#?}}: {} */", s, pretty) }),
        Err(e) => Some(format!("<<Debug panicked: {}>>", panic_msg(e))),
    }
}
struct NameOf<T>(core::marker::PhantomData<T>);
impl<T: AlgorithmName> core::fmt::Display for NameOf<T> {
    fn fmt(&self, f: &mut core::fmt::Formatter<'_>) -> core::fmt::Result {
        T::write_alg_name(f)
    }
}
fn t_alg_name<T: AlgorithmName>() -> String {
    match catch_unwind(|| format!("{}", NameOf::<T>(core::marker::PhantomData))) {
        Ok(s) => s,
        Err(e) => format!("<<write_alg_name panicked: {}>>", panic_msg(e)),
    }
}
// halves: Enc-only / Dec-only types have no combined instance; checked constructors are
// exercised through weak/new_checked returning an instance usable in one direction only.
fn t_new_checked_enc<T: KeyInit + BlockCipherEncrypt + Send + Sync + 'static, D: KeyInit + BlockCipherDecrypt + Send + Sync + 'static>(
    k: &[u8],
) -> Option<Option<Inst>> {
    let key = Key::<T>::try_from(k).ok()?;
    Some(T::new_checked(&key).ok().map(|e| Inst::pair(e, D::new_from_slice(k).unwrap())))
}
fn t_new_checked_dec<E: KeyInit + BlockCipherEncrypt + Send + Sync + 'static, T: KeyInit + BlockCipherDecrypt + Send + Sync + 'static>(
    k: &[u8],
) -> Option<Option<Inst>> {
    let key = Key::<T>::try_from(k).ok()?;
    Some(T::new_checked(&key).ok().map(|d| Inst::pair(E::new_from_slice(k).unwrap(), d)))
}
fn t_new_fixed_enc<T: KeyInit + BlockCipherEncrypt + Send + Sync + 'static, D: KeyInit + BlockCipherDecrypt + Send + Sync + 'static>(k: &[u8]) -> Option<Inst> {
    let key = Key::<T>::try_from(k).ok()?;
    Some(Inst::pair(T::new(&key), D::new_from_slice(k).unwrap()))
}
fn t_new_fixed_dec<E: KeyInit + BlockCipherEncrypt + Send + Sync + 'static, T: KeyInit + BlockCipherDecrypt + Send + Sync + 'static>(k: &[u8]) -> Option<Inst> {
    let key = Key::<T>::try_from(k).ok()?;
    Some(Inst::pair(E::new_from_slice(k).unwrap(), T::new(&key)))
}

macro_rules! ti {
    ($v:ident, $t:ty, $name:expr, $ident:expr, $krate:expr, $bs:expr, $accepts:expr, $weak_rule:expr, $fam:expr, $params:expr; nodebug) => {
        $v.push(TypeInfo {
            name: $name.to_string(),
            ident: $ident.to_string(),
            krate: $krate,
            key_size: <$t as KeySizeUser>::KeySize::USIZE,
            block_size: $bs,
            accepts: $accepts,
            from_slice: t_from_slice::<$t>,
            weak: t_weak::<$t>,
            new_checked: t_new_checked::<$t>,
            new_fixed: t_new_fixed::<$t>,
            debug: None,
            alg_name: Some(t_alg_name::<$t>),
            weak_rule: $weak_rule,
            name_family: $fam,
            name_params: $params,
            combined: true,
        })
    };
    ($v:ident, $t:ty, $name:expr, $ident:expr, $krate:expr, $bs:expr, $accepts:expr, $weak_rule:expr, $fam:expr, $params:expr) => {
        $v.push(TypeInfo {
            name: $name.to_string(),
            ident: $ident.to_string(),
            krate: $krate,
            key_size: <$t as KeySizeUser>::KeySize::USIZE,
            block_size: $bs,
            accepts: $accepts,
            from_slice: t_from_slice::<$t>,
            weak: t_weak::<$t>,
            new_checked: t_new_checked::<$t>,
            new_fixed: t_new_fixed::<$t>,
            debug: Some(t_debug::<$t>),
            alg_name: Some(t_alg_name::<$t>),
            weak_rule: $weak_rule,
            name_family: $fam,
            name_params: $params,
            combined: true,
        })
    };
}
macro_rules! ti_halves {
    ($v:ident, $krate_path:ident, $pfx:expr, $enc:ident, $dec:ident, $krate:expr, $kl:expr, $weak_rule:expr, $fam:expr, $params:expr) => {
        $v.push(TypeInfo {
            name: format!("{}::{}", $pfx, stringify!($enc)),
            ident: stringify!($enc).to_string(),
            krate: $krate,
            key_size: $kl,
            block_size: 16,
            accepts: |l| l == $kl,
            from_slice: t_from_slice::<$krate_path::$enc>,
            weak: t_weak::<$krate_path::$enc>,
            new_checked: t_new_checked_enc::<$krate_path::$enc, $krate_path::$dec>,
            new_fixed: t_new_fixed_enc::<$krate_path::$enc, $krate_path::$dec>,
            debug: Some(t_debug::<$krate_path::$enc>),
            alg_name: Some(t_alg_name::<$krate_path::$enc>),
            weak_rule: $weak_rule,
            name_family: $fam,
            name_params: $params,
            combined: false,
        });
        $v.push(TypeInfo {
            name: format!("{}::{}", $pfx, stringify!($dec)),
            ident: stringify!($dec).to_string(),
            krate: $krate,
            key_size: $kl,
            block_size: 16,
            accepts: |l| l == $kl,
            from_slice: t_from_slice::<$krate_path::$dec>,
            weak: t_weak::<$krate_path::$dec>,
            new_checked: t_new_checked_dec::<$krate_path::$enc, $krate_path::$dec>,
            new_fixed: t_new_fixed_dec::<$krate_path::$enc, $krate_path::$dec>,
            debug: Some(t_debug::<$krate_path::$dec>),
            alg_name: Some(t_alg_name::<$krate_path::$dec>),
            weak_rule: $weak_rule,
            name_family: $fam,
            name_params: $params,
            combined: false,
        });
    };
}

macro_rules! ti_rc5 {
    ($v:ident; $( ($w:ty, $r:ty, $b:ty) ),* $(,)?) => {$(
        ti!($v, rc5::RC5<$w, $r, $b>,
            format!("rc5::RC5<{},U{},U{}>", stringify!($w), <$r as Unsigned>::USIZE, <$b as Unsigned>::USIZE),
            "RC5", "rc5", 2 * core::mem::size_of::<$w>(), |l| l == <$b as Unsigned>::USIZE, "never", &["rc5"],
            vec![format!("{}", 8 * core::mem::size_of::<$w>()), format!("{}", <$r as Unsigned>::USIZE), format!("{}", <$b as Unsigned>::USIZE)]);
    )*};
}
macro_rules! ti_gost_user {
    ($v:ident; $($seed:expr),*) => {$(
        ti!($v, magma::Gost89<UserSbox<$seed>>, format!("magma::Gost89<UserSbox<{}>>", $seed), "Gost89", "magma", 8, |l| l == 32, "never", &["gost", "user"], vec!["89".into()]);
    )*};
}

pub fn types() -> Vec<TypeInfo> {
    let mut v: Vec<TypeInfo> = Vec::new();
    macro_rules! aes3 {
        ($kp:ident, $pfx:expr) => {
            ti!(v, $kp::Aes128, format!("{}::Aes128", $pfx), "Aes128", "aes", 16, |l| l == 16, "aes", &["aes"], vec!["128".into()]);
            ti!(v, $kp::Aes192, format!("{}::Aes192", $pfx), "Aes192", "aes", 16, |l| l == 24, "aes", &["aes"], vec!["192".into()]);
            ti!(v, $kp::Aes256, format!("{}::Aes256", $pfx), "Aes256", "aes", 16, |l| l == 32, "aes", &["aes"], vec!["256".into()]);
            ti_halves!(v, $kp, $pfx, Aes128Enc, Aes128Dec, "aes", 16, "aes", &["aes"], vec!["128".into()]);
            ti_halves!(v, $kp, $pfx, Aes192Enc, Aes192Dec, "aes", 24, "aes", &["aes"], vec!["192".into()]);
            ti_halves!(v, $kp, $pfx, Aes256Enc, Aes256Dec, "aes", 32, "aes", &["aes"], vec!["256".into()]);
        };
    }
    aes3!(aes, "aes");
    #[cfg(feature = "shadows")]
    {
        aes3!(aes_armv8, "S:aes_armv8");
        aes3!(aes_soft32, "S:aes_soft32");
        aes3!(aes_soft32c, "S:aes_soft32c");
    }
    ti!(v, aria::Aria128, "aria::Aria128", "Aria128", "aria", 16, |l| l == 16, "never", &["aria"], vec!["128".into()]);
    ti!(v, aria::Aria192, "aria::Aria192", "Aria192", "aria", 16, |l| l == 24, "never", &["aria"], vec!["192".into()]);
    ti!(v, aria::Aria256, "aria::Aria256", "Aria256", "aria", 16, |l| l == 32, "never", &["aria"], vec!["256".into()]);
    ti!(v, camellia::Camellia128, "camellia::Camellia128", "Camellia128", "camellia", 16, |l| l == 16, "never", &["camellia"], vec!["128".into()]);
    ti!(v, camellia::Camellia192, "camellia::Camellia192", "Camellia192", "camellia", 16, |l| l == 24, "never", &["camellia"], vec!["192".into()]);
    ti!(v, camellia::Camellia256, "camellia::Camellia256", "Camellia256", "camellia", 16, |l| l == 32, "never", &["camellia"], vec!["256".into()]);
    ti!(v, sm4::Sm4, "sm4::Sm4", "Sm4", "sm4", 16, |l| l == 16, "never", &["sm4"], vec![]);
    ti!(v, des::Des, "des::Des", "Des", "des", 8, |l| l == 8, "des", &["des"], vec![]);
    ti!(v, des::TdesEde3, "des::TdesEde3", "TdesEde3", "des", 8, |l| l == 24, "tdes3", &["des", "ede3"], vec![]);
    ti!(v, des::TdesEde2, "des::TdesEde2", "TdesEde2", "des", 8, |l| l == 16, "tdes2", &["des", "ede2"], vec![]);
    ti!(v, des::TdesEee3, "des::TdesEee3", "TdesEee3", "des", 8, |l| l == 24, "tdes3", &["des", "eee3"], vec![]);
    ti!(v, des::TdesEee2, "des::TdesEee2", "TdesEee2", "des", 8, |l| l == 16, "tdes2", &["des", "eee2"], vec![]);
    ti!(v, kuznyechik::Kuznyechik, "kuznyechik::Kuznyechik", "Kuznyechik", "kuznyechik", 16, |l| l == 32, "never", &["kuznyechik"], vec![]);
    ti_halves!(v, kuznyechik, "kuznyechik", KuznyechikEnc, KuznyechikDec, "kuznyechik", 32, "never", &["kuznyechik"], vec![]);
    #[cfg(feature = "shadows")]
    {
        ti!(v, kuz_neon::Kuznyechik, "S:kuz_neon::Kuznyechik", "Kuznyechik", "kuznyechik", 16, |l| l == 32, "never", &["kuznyechik"], vec![]);
        ti_halves!(v, kuz_neon, "S:kuz_neon", KuznyechikEnc, KuznyechikDec, "kuznyechik", 32, "never", &["kuznyechik"], vec![]);
    }
    ti!(v, magma::Magma, "magma::Magma", "Magma", "magma", 8, |l| l == 32, "never", &["magma|gost"], vec![]);
    ti!(v, magma::Gost89Test, "magma::Gost89Test", "Gost89Test", "magma", 8, |l| l == 32, "never", &["gost", "test"], vec!["89".into()]);
    ti!(v, magma::Gost89CryptoProA, "magma::Gost89CryptoProA", "Gost89CryptoProA", "magma", 8, |l| l == 32, "never", &["gost", "cryptoproa"], vec!["89".into()]);
    ti!(v, magma::Gost89CryptoProB, "magma::Gost89CryptoProB", "Gost89CryptoProB", "magma", 8, |l| l == 32, "never", &["gost", "cryptoprob"], vec!["89".into()]);
    ti!(v, magma::Gost89CryptoProC, "magma::Gost89CryptoProC", "Gost89CryptoProC", "magma", 8, |l| l == 32, "never", &["gost", "cryptoproc"], vec!["89".into()]);
    ti!(v, magma::Gost89CryptoProD, "magma::Gost89CryptoProD", "Gost89CryptoProD", "magma", 8, |l| l == 32, "never", &["gost", "cryptoprod"], vec!["89".into()]);
    ti_gost_user!(v; 0, 1, 2, 6, 7);
    ti!(v, belt_block::BeltBlock, "belt_block::BeltBlock", "BeltBlock", "belt-block", 16, |l| l == 32, "never", &["belt"], vec![]; nodebug);
    ti!(v, serpent::Serpent, "serpent::Serpent", "Serpent", "serpent", 16, |l| (16..=32).contains(&l), "never", &["serpent"], vec![]);
    ti!(v, twofish::Twofish, "twofish::Twofish", "Twofish", "twofish", 16, |l| l == 16 || l == 24 || l == 32, "never", &["twofish"], vec![]);
    ti!(v, cast6::Cast6, "cast6::Cast6", "Cast6", "cast6", 16, |l| [16, 20, 24, 28, 32].contains(&l), "never", &["cast6|cast256"], vec![]);
    ti!(v, blowfish::Blowfish, "blowfish::Blowfish", "Blowfish", "blowfish", 8, |l| (4..=56).contains(&l), "never", &["blowfish"], vec![]);
    ti!(v, blowfish::BlowfishLE, "blowfish::BlowfishLE", "BlowfishLE", "blowfish", 8, |l| (4..=56).contains(&l), "never", &["blowfish", "le"], vec![]);
    ti!(v, cast5::Cast5, "cast5::Cast5", "Cast5", "cast5", 8, |l| (5..=16).contains(&l), "never", &["cast5|cast128"], vec![]);
    ti!(v, idea::Idea, "idea::Idea", "Idea", "idea", 8, |l| l == 16, "never", &["idea"], vec![]);
    ti!(v, rc2::Rc2, "rc2::Rc2", "Rc2", "rc2", 8, |l| (1..=128).contains(&l), "never", &["rc2"], vec![]);
    ti!(v, xtea::Xtea, "xtea::Xtea", "Xtea", "xtea", 8, |l| l == 16, "never", &["xtea"], vec![]);
    ti!(v, speck_cipher::Speck32_64, "speck_cipher::Speck32_64", "Speck32_64", "speck", 4, |l| l == 8, "never", &["speck"], vec!["32".into(), "64".into()]);
    ti!(v, speck_cipher::Speck48_72, "speck_cipher::Speck48_72", "Speck48_72", "speck", 6, |l| l == 9, "never", &["speck"], vec!["48".into(), "72".into()]);
    ti!(v, speck_cipher::Speck48_96, "speck_cipher::Speck48_96", "Speck48_96", "speck", 6, |l| l == 12, "never", &["speck"], vec!["48".into(), "96".into()]);
    ti!(v, speck_cipher::Speck64_96, "speck_cipher::Speck64_96", "Speck64_96", "speck", 8, |l| l == 12, "never", &["speck"], vec!["64".into(), "96".into()]);
    ti!(v, speck_cipher::Speck64_128, "speck_cipher::Speck64_128", "Speck64_128", "speck", 8, |l| l == 16, "never", &["speck"], vec!["64".into(), "128".into()]);
    ti!(v, speck_cipher::Speck96_96, "speck_cipher::Speck96_96", "Speck96_96", "speck", 12, |l| l == 12, "never", &["speck"], vec!["96".into(), "96".into()]);
    ti!(v, speck_cipher::Speck96_144, "speck_cipher::Speck96_144", "Speck96_144", "speck", 12, |l| l == 18, "never", &["speck"], vec!["96".into(), "144".into()]);
    ti!(v, speck_cipher::Speck128_128, "speck_cipher::Speck128_128", "Speck128_128", "speck", 16, |l| l == 16, "never", &["speck"], vec!["128".into(), "128".into()]);
    ti!(v, speck_cipher::Speck128_192, "speck_cipher::Speck128_192", "Speck128_192", "speck", 16, |l| l == 24, "never", &["speck"], vec!["128".into(), "192".into()]);
    ti!(v, speck_cipher::Speck128_256, "speck_cipher::Speck128_256", "Speck128_256", "speck", 16, |l| l == 32, "never", &["speck"], vec!["128".into(), "256".into()]);
    ti!(v, threefish::Threefish256, "threefish::Threefish256", "Threefish256", "threefish", 32, |l| l == 32, "never", &["threefish"], vec!["256".into()]);
    ti!(v, threefish::Threefish512, "threefish::Threefish512", "Threefish512", "threefish", 64, |l| l == 64, "never", &["threefish"], vec!["512".into()]);
    ti!(v, threefish::Threefish1024, "threefish::Threefish1024", "Threefish1024", "threefish", 128, |l| l == 128, "never", &["threefish"], vec!["1024".into()]);
    ti!(v, gift_cipher::Gift128, "gift_cipher::Gift128", "Gift128", "gift", 16, |l| l == 16, "never", &["gift"], vec!["128".into()]);
    ti_rc5!(v;
        (u8, U12, U4), (u16, U16, U8), (u32, U12, U16), (u32, U16, U16), (u64, U24, U24), (u128, U28, U32),
        (u32, U20, U5), (u64, U1, U11), (u16, U255, U3), (u8, U0, U4), (u128, U12, U255), (u32, U12, U0),
        (u32, U200, U16), (u8, U128, U8), (u64, U127, U9), (u16, U254, U2), (u128, U100, U1),
    );
    v
}

#[allow(dead_code)]
pub fn _unused(_: Array<u8, U1>) {}
