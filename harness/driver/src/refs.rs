//! Adapters from registry entries to the reference models.
use refmodels::RefCipher;

type R = Option<Box<dyn RefCipher>>;
fn bx<T: RefCipher + 'static>(t: Option<T>) -> R {
    t.map(|x| Box::new(x) as Box<dyn RefCipher>)
}

pub fn aes(k: &[u8]) -> R {
    bx(refmodels::aes::Aes::new(k))
}
pub fn aria(k: &[u8]) -> R {
    bx(refmodels::aria::Aria::new(k))
}
pub fn camellia(k: &[u8]) -> R {
    bx(refmodels::camellia::Camellia::new(k))
}
pub fn sm4(k: &[u8]) -> R {
    bx(refmodels::sm4::Sm4::new(k))
}
pub fn des(k: &[u8]) -> R {
    bx(refmodels::des::Des::new(k))
}
pub fn tdes_ede3(k: &[u8]) -> R {
    bx(refmodels::des::Tdes::new_ede3(k))
}
pub fn tdes_ede2(k: &[u8]) -> R {
    bx(refmodels::des::Tdes::new_ede2(k))
}
pub fn tdes_eee3(k: &[u8]) -> R {
    bx(refmodels::des::Tdes::new_eee3(k))
}
pub fn tdes_eee2(k: &[u8]) -> R {
    bx(refmodels::des::Tdes::new_eee2(k))
}
pub fn serpent(k: &[u8]) -> R {
    bx(refmodels::serpent::Serpent::new(k))
}
pub fn twofish(k: &[u8]) -> R {
    bx(refmodels::twofish::Twofish::new(k))
}
pub fn cast5(k: &[u8]) -> R {
    bx(refmodels::cast5::Cast5::new(k))
}
pub fn cast6(k: &[u8]) -> R {
    bx(refmodels::cast6::Cast6::new(k))
}
pub fn idea(k: &[u8]) -> R {
    bx(refmodels::idea::Idea::new(k))
}

pub fn kuznyechik(k: &[u8]) -> R {
    bx(refmodels::kuznyechik::Kuznyechik::new(k))
}
pub fn gost89(k: &[u8], sbox: &[[u8; 16]; 8]) -> R {
    bx(refmodels::gost89::Gost89::new(k, sbox))
}
pub fn belt(k: &[u8]) -> R {
    bx(refmodels::belt::Belt::new(k))
}
pub fn rc5(w: u32, r: u32, k: &[u8]) -> R {
    bx(refmodels::rc5::Rc5::new(w, r, k))
}
macro_rules! speck_ref {
    ($($n:ident, $b:expr, $k:expr);*) => {$(pub fn $n(k: &[u8]) -> R { bx(refmodels::speck::Speck::new($b, $k, k)) })*};
}
speck_ref!(speck32_64, 32, 64; speck48_72, 48, 72; speck48_96, 48, 96; speck64_96, 64, 96; speck64_128, 64, 128;
           speck96_96, 96, 96; speck96_144, 96, 144; speck128_128, 128, 128; speck128_192, 128, 192; speck128_256, 128, 256);
pub fn threefish_zero(k: &[u8]) -> R {
    bx(refmodels::threefish::Threefish::new(k, &[0u8; 16]))
}
/// key material = key || tweak(16)
pub fn threefish_tweak(k: &[u8]) -> R {
    if k.len() < 16 {
        return None;
    }
    let (key, tw) = k.split_at(k.len() - 16);
    bx(refmodels::threefish::Threefish::new(key, tw.try_into().unwrap()))
}
pub fn gift128(k: &[u8]) -> R {
    bx(refmodels::gift128::Gift128::new(k))
}

pub fn blowfish(k: &[u8]) -> R {
    bx(refmodels::blowfish::Blowfish::new(k))
}
pub fn blowfish_le(k: &[u8]) -> R {
    bx(refmodels::blowfish::Blowfish::new(k).map(refmodels::BlowfishLe))
}
pub fn rc2(k: &[u8]) -> R {
    bx(refmodels::rc2::Rc2::new(k))
}
/// key material = effective bits as 2 LE bytes || key
pub fn rc2_eff(k: &[u8]) -> R {
    if k.len() < 3 {
        return None;
    }
    let bits = u16::from_le_bytes([k[0], k[1]]) as usize;
    bx(refmodels::rc2::Rc2::new_with_eff_bits(&k[2..], bits))
}
pub fn xtea(k: &[u8]) -> R {
    bx(refmodels::xtea::Xtea::new(k))
}
