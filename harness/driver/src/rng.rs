//! xoshiro256** seeded through splitmix64. Deterministic across configurations so that every
//! build sees the same case list.
#[derive(Clone)]
pub struct Rng {
    s: [u64; 4],
}
fn splitmix(x: &mut u64) -> u64 {
    *x = x.wrapping_add(0x9E3779B97F4A7C15);
    let mut z = *x;
    z = (z ^ (z >> 30)).wrapping_mul(0xBF58476D1CE4E5B9);
    z = (z ^ (z >> 27)).wrapping_mul(0x94D049BB133111EB);
    z ^ (z >> 31)
}
pub fn fnv64(data: &[u8]) -> u64 {
    let mut h: u64 = 0xcbf29ce484222325;
    for &b in data {
        h ^= b as u64;
        h = h.wrapping_mul(0x100000001b3);
    }
    h
}
impl Rng {
    pub fn new(seed: u64, tag: &str, shard: u64) -> Rng {
        let mut x = seed ^ fnv64(tag.as_bytes()).rotate_left(17) ^ shard.wrapping_mul(0xD1B54A32D192ED03);
        let mut s = [0u64; 4];
        for v in s.iter_mut() {
            *v = splitmix(&mut x);
        }
        Rng { s }
    }
    #[inline]
    pub fn next(&mut self) -> u64 {
        let r = self.s[1].wrapping_mul(5).rotate_left(7).wrapping_mul(9);
        let t = self.s[1] << 17;
        self.s[2] ^= self.s[0];
        self.s[3] ^= self.s[1];
        self.s[1] ^= self.s[2];
        self.s[0] ^= self.s[3];
        self.s[2] ^= t;
        self.s[3] = self.s[3].rotate_left(45);
        r
    }
    #[inline]
    pub fn below(&mut self, n: usize) -> usize {
        if n == 0 {
            0
        } else {
            (self.next() % n as u64) as usize
        }
    }
    pub fn fill(&mut self, b: &mut [u8]) {
        for c in b.chunks_mut(8) {
            let v = self.next().to_le_bytes();
            c.copy_from_slice(&v[..c.len()]);
        }
    }
    pub fn bytes(&mut self, n: usize) -> Vec<u8> {
        let mut v = vec![0u8; n];
        self.fill(&mut v);
        v
    }
}
