//! Type-erased access to the real cipher types through the public `cipher` traits, including
//! every call shape of the front-end and direct access to the backend through probe closures.
use cipher::array::Array;
use cipher::crypto_common::BlockSizes;
use cipher::inout::{InOut, InOutBuf};
use cipher::typenum::Unsigned;
use cipher::{
    BlockCipherDecBackend, BlockCipherDecClosure, BlockCipherDecrypt, BlockCipherEncBackend, BlockCipherEncClosure,
    BlockCipherEncrypt, BlockSizeUser,
};
use std::sync::Arc;

#[derive(Clone, Copy, PartialEq, Eq, Debug)]
pub enum Shape {
    Block,
    BlockB2b,
    BlockInout,
    Blocks,
    BlocksB2b,
    BlocksInout,
    BackendPar,
    BackendBlock,
    /// backend `*_block_inplace` on each block (what block modes and MACs call)
    BackendBlockInplace,
    /// backend `*_par_blocks_inplace` on full chunks + `*_tail_blocks_inplace` on the rest
    BackendParInplace,
}
pub const ALL_SHAPES: [Shape; 10] = [
    Shape::Block,
    Shape::BlockB2b,
    Shape::BlockInout,
    Shape::Blocks,
    Shape::BlocksB2b,
    Shape::BlocksInout,
    Shape::BackendPar,
    Shape::BackendBlock,
    Shape::BackendBlockInplace,
    Shape::BackendParInplace,
];
impl Shape {
    pub fn name(self) -> &'static str {
        match self {
            Shape::Block => "block",
            Shape::BlockB2b => "block_b2b",
            Shape::BlockInout => "block_inout",
            Shape::Blocks => "blocks",
            Shape::BlocksB2b => "blocks_b2b",
            Shape::BlocksInout => "blocks_inout",
            Shape::BackendPar => "backend_par+tail",
            Shape::BackendBlock => "backend_block",
            Shape::BackendBlockInplace => "backend_block_inplace",
            Shape::BackendParInplace => "backend_par_inplace+tail_inplace",
        }
    }
    /// b2b shapes need a separate input buffer.
    pub fn needs_input(self) -> bool {
        matches!(self, Shape::BlockB2b | Shape::BlocksB2b)
    }
}

/// `inp == None`: operate on `out` in place. Otherwise read `inp`, write `out` (same length,
/// multiple of the block size; the two never overlap: the safe API cannot express overlap).
pub trait DynEnc: Send + Sync {
    fn bs(&self) -> usize;
    fn width(&self) -> usize;
    fn run(&self, shape: Shape, inp: Option<&[u8]>, out: &mut [u8]);
}
pub trait DynDec: Send + Sync {
    fn bs(&self) -> usize;
    fn width(&self) -> usize;
    fn run(&self, shape: Shape, inp: Option<&[u8]>, out: &mut [u8]);
}

fn blocks<N: BlockSizes>(b: &[u8]) -> &[Array<u8, N>] {
    let (c, r) = Array::<u8, N>::slice_as_chunks(b);
    assert!(r.is_empty());
    c
}
fn blocks_mut<N: BlockSizes>(b: &mut [u8]) -> &mut [Array<u8, N>] {
    let (c, r) = Array::<u8, N>::slice_as_chunks_mut(b);
    assert!(r.is_empty());
    c
}

struct WidthProbe<'a, BS>(&'a mut usize, core::marker::PhantomData<BS>);
impl<BS: BlockSizes> BlockSizeUser for WidthProbe<'_, BS> {
    type BlockSize = BS;
}
impl<BS: BlockSizes> BlockCipherEncClosure for WidthProbe<'_, BS> {
    fn call<B: BlockCipherEncBackend<BlockSize = BS>>(self, _b: &B) {
        *self.0 = B::ParBlocksSize::USIZE;
    }
}
impl<BS: BlockSizes> BlockCipherDecClosure for WidthProbe<'_, BS> {
    fn call<B: BlockCipherDecBackend<BlockSize = BS>>(self, _b: &B) {
        *self.0 = B::ParBlocksSize::USIZE;
    }
}

struct BackendProbe<'a, BS> {
    inp: Option<&'a [u8]>,
    out: &'a mut [u8],
    per_block: bool,
    inplace_api: bool,
    _p: core::marker::PhantomData<BS>,
}
impl<BS: BlockSizes> BlockSizeUser for BackendProbe<'_, BS> {
    type BlockSize = BS;
}
macro_rules! backend_probe_impl {
    ($closure:ident, $backend:ident, $blk:ident, $par:ident, $tail:ident, $blk_ip:ident, $par_ip:ident, $tail_ip:ident) => {
        impl<BS: BlockSizes> $closure for BackendProbe<'_, BS> {
            fn call<B: $backend<BlockSize = BS>>(self, backend: &B) {
                let out = blocks_mut::<BS>(self.out);
                if self.inplace_api {
                    // the `_inplace` entry points take `&mut` blocks: data must already be in `out`
                    if let Some(i) = self.inp {
                        for (o, a) in out.iter_mut().zip(blocks::<BS>(i)) {
                            *o = a.clone();
                        }
                    }
                    if self.per_block {
                        for b in out.iter_mut() {
                            backend.$blk_ip(b);
                        }
                    } else {
                        let w = B::ParBlocksSize::USIZE;
                        let (chunks, tail) = Array::<Array<u8, BS>, B::ParBlocksSize>::slice_as_chunks_mut(out);
                        for c in chunks.iter_mut() {
                            backend.$par_ip(c);
                        }
                        if w > 1 {
                            backend.$tail_ip(tail);
                        } else {
                            assert!(tail.is_empty());
                        }
                    }
                    return;
                }
                let buf: InOutBuf<'_, '_, Array<u8, BS>> = match self.inp {
                    Some(i) => InOutBuf::new(blocks::<BS>(i), out).expect("equal lengths"),
                    None => out.into(),
                };
                if self.per_block {
                    for b in buf {
                        backend.$blk(b);
                    }
                } else {
                    let (chunks, tail) = buf.into_chunks::<B::ParBlocksSize>();
                    for c in chunks {
                        backend.$par(c);
                    }
                    if B::ParBlocksSize::USIZE > 1 {
                        backend.$tail(tail);
                    } else {
                        // width 1: into_chunks consumed everything; the tail is empty
                        assert!(tail.is_empty());
                    }
                }
            }
        }
    };
}
backend_probe_impl!(BlockCipherEncClosure, BlockCipherEncBackend, encrypt_block, encrypt_par_blocks, encrypt_tail_blocks, encrypt_block_inplace, encrypt_par_blocks_inplace, encrypt_tail_blocks_inplace);
backend_probe_impl!(BlockCipherDecClosure, BlockCipherDecBackend, decrypt_block, decrypt_par_blocks, decrypt_tail_blocks, decrypt_block_inplace, decrypt_par_blocks_inplace, decrypt_tail_blocks_inplace);

macro_rules! dyn_impl {
    ($dyn:ident, $tr:ident, $with:ident, $block:ident, $b2b:ident, $inout:ident, $blocks:ident, $blocks_b2b:ident, $blocks_inout:ident) => {
        impl<T: $tr + Send + Sync> $dyn for T {
            fn bs(&self) -> usize {
                <T as BlockSizeUser>::BlockSize::USIZE
            }
            fn width(&self) -> usize {
                let mut w = 0usize;
                self.$with(WidthProbe::<T::BlockSize>(&mut w, core::marker::PhantomData));
                w
            }
            fn run(&self, shape: Shape, inp: Option<&[u8]>, out: &mut [u8]) {
                if let Some(i) = inp {
                    assert_eq!(i.len(), out.len());
                }
                match shape {
                    Shape::Block => {
                        if let Some(i) = inp {
                            out.copy_from_slice(i);
                        }
                        for b in blocks_mut::<T::BlockSize>(out) {
                            self.$block(b);
                        }
                    }
                    Shape::BlockB2b => {
                        let i = inp.expect("b2b needs input");
                        for (a, b) in blocks::<T::BlockSize>(i).iter().zip(blocks_mut::<T::BlockSize>(out)) {
                            self.$b2b(a, b);
                        }
                    }
                    Shape::BlockInout => match inp {
                        Some(i) => {
                            for (a, b) in blocks::<T::BlockSize>(i).iter().zip(blocks_mut::<T::BlockSize>(out)) {
                                self.$inout(InOut::from((a, b)));
                            }
                        }
                        None => {
                            for b in blocks_mut::<T::BlockSize>(out) {
                                self.$inout(InOut::from(b));
                            }
                        }
                    },
                    Shape::Blocks => {
                        if let Some(i) = inp {
                            out.copy_from_slice(i);
                        }
                        self.$blocks(blocks_mut::<T::BlockSize>(out));
                    }
                    Shape::BlocksB2b => {
                        let i = inp.expect("b2b needs input");
                        self.$blocks_b2b(blocks::<T::BlockSize>(i), blocks_mut::<T::BlockSize>(out)).expect("equal lengths");
                    }
                    Shape::BlocksInout => match inp {
                        Some(i) => self.$blocks_inout(
                            InOutBuf::new(blocks::<T::BlockSize>(i), blocks_mut::<T::BlockSize>(out)).expect("equal lengths"),
                        ),
                        None => self.$blocks_inout(blocks_mut::<T::BlockSize>(out).into()),
                    },
                    Shape::BackendPar | Shape::BackendBlock | Shape::BackendBlockInplace | Shape::BackendParInplace => {
                        self.$with(BackendProbe::<T::BlockSize> {
                            inp,
                            out,
                            per_block: shape == Shape::BackendBlock || shape == Shape::BackendBlockInplace,
                            inplace_api: shape == Shape::BackendBlockInplace || shape == Shape::BackendParInplace,
                            _p: core::marker::PhantomData,
                        });
                    }
                }
            }
        }
    };
}
dyn_impl!(DynEnc, BlockCipherEncrypt, encrypt_with_backend, encrypt_block, encrypt_block_b2b, encrypt_block_inout, encrypt_blocks, encrypt_blocks_b2b, encrypt_blocks_inout);
dyn_impl!(DynDec, BlockCipherDecrypt, decrypt_with_backend, decrypt_block, decrypt_block_b2b, decrypt_block_inout, decrypt_blocks, decrypt_blocks_b2b, decrypt_blocks_inout);

/// A usable cipher: an encrypting half and a decrypting half (the same object for combined
/// types, two objects for Enc-only/Dec-only pairs).
#[derive(Clone)]
pub struct Inst {
    pub enc: Arc<dyn DynEnc>,
    pub dec: Arc<dyn DynDec>,
}
impl Inst {
    pub fn combined<T: BlockCipherEncrypt + BlockCipherDecrypt + Send + Sync + 'static>(t: T) -> Inst {
        let a = Arc::new(t);
        Inst { enc: a.clone(), dec: a }
    }
    pub fn pair<E: BlockCipherEncrypt + Send + Sync + 'static, D: BlockCipherDecrypt + Send + Sync + 'static>(e: E, d: D) -> Inst {
        Inst { enc: Arc::new(e), dec: Arc::new(d) }
    }
    pub fn bs(&self) -> usize {
        self.enc.bs()
    }
    pub fn enc1(&self, b: &mut [u8]) {
        self.enc.run(Shape::Block, None, b)
    }
    pub fn dec1(&self, b: &mut [u8]) {
        self.dec.run(Shape::Block, None, b)
    }
    pub fn run(&self, encrypt: bool, shape: Shape, inp: Option<&[u8]>, out: &mut [u8]) {
        if encrypt {
            self.enc.run(shape, inp, out)
        } else {
            self.dec.run(shape, inp, out)
        }
    }
    pub fn width(&self, encrypt: bool) -> usize {
        if encrypt {
            self.enc.width()
        } else {
            self.dec.width()
        }
    }
}
