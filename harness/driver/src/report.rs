//! Minimal JSON value + per-run report accumulated by monitors.
use std::collections::{BTreeMap, HashSet};
use std::fmt::Write as _;

#[derive(Clone, Debug)]
pub enum J {
    Null,
    B(bool),
    I(i64),
    F(f64),
    S(String),
    A(Vec<J>),
    O(BTreeMap<String, J>),
}
impl J {
    pub fn s(x: impl Into<String>) -> J {
        J::S(x.into())
    }
    pub fn obj(kv: Vec<(&str, J)>) -> J {
        J::O(kv.into_iter().map(|(k, v)| (k.to_string(), v)).collect())
    }
    pub fn write(&self, out: &mut String) {
        match self {
            J::Null => out.push_str("null"),
            J::B(b) => out.push_str(if *b { "true" } else { "false" }),
            J::I(i) => {
                let _ = write!(out, "{}", i);
            }
            J::F(f) => {
                let _ = write!(out, "{}", f);
            }
            J::S(s) => {
                out.push('"');
                for c in s.chars() {
                    match c {
                        '"' => out.push_str("\\\""),
                        '\\' => out.push_str("\\\\"),
                        '\n' => out.push_str("\\n"),
                        '\r' => out.push_str("\\r"),
                        '\t' => out.push_str("\\t"),
                        c if (c as u32) < 0x20 => {
                            let _ = write!(out, "\\u{:04x}", c as u32);
                        }
                        c => out.push(c),
                    }
                }
                out.push('"');
            }
            J::A(a) => {
                out.push('[');
                for (i, v) in a.iter().enumerate() {
                    if i > 0 {
                        out.push(',');
                    }
                    v.write(out);
                }
                out.push(']');
            }
            J::O(o) => {
                out.push('{');
                for (i, (k, v)) in o.iter().enumerate() {
                    if i > 0 {
                        out.push(',');
                    }
                    J::S(k.clone()).write(out);
                    out.push(':');
                    v.write(out);
                }
                out.push('}');
            }
        }
    }
    pub fn to_string(&self) -> String {
        let mut s = String::new();
        self.write(&mut s);
        s
    }
}

pub struct Violation {
    /// exact signature used for known-finding matching: monitor|type|what
    pub sig: String,
    pub detail: J,
}

#[derive(Default)]
pub struct Report {
    pub monitor: String,
    pub evaluations: u64,
    pub random_hashes: HashSet<u64>,
    pub structured_hashes: HashSet<u64>,
    pub per_type: BTreeMap<String, BTreeMap<String, i64>>,
    pub counters: BTreeMap<String, i64>,
    pub samples: Vec<J>,
    pub violations: Vec<Violation>,
    pub notes: Vec<String>,
    pub inconclusive: Vec<String>,
    pub extra: BTreeMap<String, J>,
}

impl Report {
    pub fn new(monitor: &str) -> Report {
        Report { monitor: monitor.to_string(), ..Default::default() }
    }
    /// Record one oracle evaluation on a case identified by `h`; `random` says whether the case
    /// contains a >= 64-bit uniformly random component.
    pub fn case(&mut self, h: u64, random: bool) {
        self.evaluations += 1;
        if random {
            self.random_hashes.insert(h);
        } else if self.structured_hashes.len() < 400_000 {
            self.structured_hashes.insert(h);
        }
    }
    pub fn eval_only(&mut self, n: u64) {
        self.evaluations += n;
    }
    pub fn bump(&mut self, ty: &str, key: &str, n: i64) {
        *self.per_type.entry(ty.to_string()).or_default().entry(key.to_string()).or_insert(0) += n;
    }
    pub fn set(&mut self, ty: &str, key: &str, v: i64) {
        self.per_type.entry(ty.to_string()).or_default().insert(key.to_string(), v);
    }
    pub fn count(&mut self, key: &str, n: i64) {
        *self.counters.entry(key.to_string()).or_insert(0) += n;
    }
    pub fn sample(&mut self, j: J) {
        if self.samples.len() < 12 {
            self.samples.push(j);
        }
    }
    pub fn violation(&mut self, sig: String, detail: J) {
        // keep the first few per signature
        let seen = self.violations.iter().filter(|v| v.sig == sig).count();
        if seen < 3 && self.violations.len() < 200 {
            if seen == 0 {
                eprintln!("VIOLATION-CANDIDATE {} {}", sig, detail.to_string());
            }
            self.violations.push(Violation { sig, detail });
        }
        self.count("violations_total", 1);
    }
    pub fn to_json(&self, meta: Vec<(&str, J)>) -> J {
        let mut o: BTreeMap<String, J> = meta.into_iter().map(|(k, v)| (k.to_string(), v)).collect();
        o.insert("monitor".into(), J::s(&self.monitor));
        o.insert("evaluations".into(), J::I(self.evaluations as i64));
        o.insert("distinct_random".into(), J::I(self.random_hashes.len() as i64));
        o.insert(
            "structured_hashes".into(),
            J::A(self.structured_hashes.iter().map(|h| J::S(format!("{:016x}", h))).collect()),
        );
        o.insert(
            "per_type".into(),
            J::O(self
                .per_type
                .iter()
                .map(|(k, m)| (k.clone(), J::O(m.iter().map(|(a, b)| (a.clone(), J::I(*b))).collect())))
                .collect()),
        );
        o.insert("counters".into(), J::O(self.counters.iter().map(|(a, b)| (a.clone(), J::I(*b))).collect()));
        o.insert("samples".into(), J::A(self.samples.clone()));
        o.insert(
            "violations".into(),
            J::A(self.violations.iter().map(|v| J::obj(vec![("sig", J::s(&v.sig)), ("detail", v.detail.clone())])).collect()),
        );
        o.insert("notes".into(), J::A(self.notes.iter().map(J::s).collect()));
        o.insert("inconclusive".into(), J::A(self.inconclusive.iter().map(J::s).collect()));
        for (k, v) in &self.extra {
            o.insert(k.clone(), v.clone());
        }
        J::O(o)
    }
}
