//! Input classes for keys, blocks, tweaks, salts (DESIGN 4.4).
use crate::rng::Rng;

pub const CLASS_NAMES: [&str; 15] = [
    "uniform", "all00", "allFF", "walk1", "walk0", "lowweight", "highweight", "repbyte", "edgebytes",
    "x55AA", "counter", "w16edge", "w32edge", "w64edge", "mixed-half",
];
pub const NCLASS: usize = CLASS_NAMES.len();

/// True for classes carrying >= 64 bits of fresh entropy for len >= 8.
pub fn class_is_random(c: usize) -> bool {
    c == 0 || c == 14
}

pub fn gen(rng: &mut Rng, len: usize, class: usize) -> Vec<u8> {
    let mut v = vec![0u8; len];
    if len == 0 {
        return v;
    }
    let bits = len * 8;
    match class % NCLASS {
        0 => rng.fill(&mut v),
        1 => {}
        2 => v.iter_mut().for_each(|b| *b = 0xFF),
        3 => {
            let p = rng.below(bits);
            v[p / 8] = 0x80 >> (p % 8);
        }
        4 => {
            v.iter_mut().for_each(|b| *b = 0xFF);
            let p = rng.below(bits);
            v[p / 8] ^= 0x80 >> (p % 8);
        }
        5 => {
            for _ in 0..1 + rng.below(3) {
                let p = rng.below(bits);
                v[p / 8] |= 1 << (p % 8);
            }
        }
        6 => {
            v.iter_mut().for_each(|b| *b = 0xFF);
            for _ in 0..1 + rng.below(3) {
                let p = rng.below(bits);
                v[p / 8] &= !(1 << (p % 8));
            }
        }
        7 => {
            let b = rng.next() as u8;
            v.iter_mut().for_each(|x| *x = b);
        }
        8 => {
            const E: [u8; 6] = [0x00, 0x01, 0x7F, 0x80, 0xFE, 0xFF];
            v.iter_mut().for_each(|x| *x = E[rng.below(6)]);
        }
        9 => {
            let m = rng.below(3);
            for (i, x) in v.iter_mut().enumerate() {
                *x = match m {
                    0 => 0x55,
                    1 => 0xAA,
                    _ => {
                        if i % 2 == 0 {
                            0x55
                        } else {
                            0xAA
                        }
                    }
                };
            }
        }
        10 => {
            let s = rng.next() as u8;
            for (i, x) in v.iter_mut().enumerate() {
                *x = s.wrapping_add(i as u8);
            }
        }
        11 => {
            const W: [u16; 8] = [0x0000, 0x0001, 0xFFFF, 0x8000, 0xFFFE, 0x0100, 0x00FF, 0x7FFF];
            for c in v.chunks_mut(2) {
                let w = W[rng.below(8)];
                let b = if rng.below(2) == 0 { w.to_be_bytes() } else { w.to_le_bytes() };
                c.copy_from_slice(&b[..c.len()]);
            }
        }
        12 => {
            for c in v.chunks_mut(4) {
                let k = rng.below(32) as u32;
                let w: u32 = match rng.below(6) {
                    0 => 0,
                    1 => 1,
                    2 => 1u32 << k,
                    3 => (1u32 << k).wrapping_sub(1),
                    4 => !0,
                    _ => !(1u32 << k),
                };
                let b = if rng.below(2) == 0 { w.to_be_bytes() } else { w.to_le_bytes() };
                c.copy_from_slice(&b[..c.len()]);
            }
        }
        13 => {
            for c in v.chunks_mut(8) {
                let k = rng.below(64) as u32;
                let w: u64 = match rng.below(6) {
                    0 => 0,
                    1 => 1,
                    2 => 1u64 << k,
                    3 => (1u64 << k).wrapping_sub(1),
                    4 => !0,
                    _ => !(1u64 << k),
                };
                let b = if rng.below(2) == 0 { w.to_be_bytes() } else { w.to_le_bytes() };
                c.copy_from_slice(&b[..c.len()]);
            }
        }
        _ => {
            // one half random, other half constant (zeroed rotated halves, kr<<64 style schedules)
            rng.fill(&mut v);
            let fillb = [0x00u8, 0xFF][rng.below(2)];
            if rng.below(2) == 0 {
                v[..len / 2].iter_mut().for_each(|x| *x = fillb);
            } else {
                v[len / 2..].iter_mut().for_each(|x| *x = fillb);
            }
        }
    }
    v
}

/// Class schedule: half the draws uniform, the rest cycling through the structured classes.
pub fn pick_class(rng: &mut Rng, i: u64) -> usize {
    if i % 2 == 0 {
        0
    } else {
        1 + rng.below(NCLASS - 1)
    }
}

pub fn hex(b: &[u8]) -> String {
    let mut s = String::with_capacity(b.len() * 2);
    for x in b {
        s.push_str(&format!("{:02x}", x));
    }
    s
}
pub fn unhex(s: &str) -> Vec<u8> {
    (0..s.len() / 2).map(|i| u8::from_str_radix(&s[2 * i..2 * i + 2], 16).unwrap_or(0)).collect()
}
