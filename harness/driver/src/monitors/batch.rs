//! C04: multi-block and buffer-to-buffer calls equal per-block calls; nothing outside the
//! designated output blocks is written; separate inputs are left unchanged; output block i
//! depends on input block i only.
use super::*;
use crate::dynciph::{Inst, Shape, ALL_SHAPES};
use crate::registry::{entries, Made};

const GUARD: usize = 64;

fn canary(i: usize, salt: u8) -> u8 {
    (i as u8).wrapping_mul(0x9d).wrapping_add(salt) | 1
}

struct Arena {
    buf: Vec<u8>,
    off: usize,
    len: usize,
    salt: u8,
}
impl Arena {
    /// `len` payload bytes at byte offset GUARD+off inside a fresh heap allocation whose every
    /// other byte is a position-dependent canary.
    fn new(len: usize, off: usize, salt: u8) -> Arena {
        let total = GUARD + 16 + len + GUARD;
        let mut buf = vec![0u8; total];
        for (i, b) in buf.iter_mut().enumerate() {
            *b = canary(i, salt);
        }
        Arena { buf, off: GUARD + off, len, salt }
    }
    fn payload(&mut self) -> &mut [u8] {
        &mut self.buf[self.off..self.off + self.len]
    }
    fn payload_ref(&self) -> &[u8] {
        &self.buf[self.off..self.off + self.len]
    }
    fn guards_intact(&self) -> Option<usize> {
        for (i, b) in self.buf.iter().enumerate() {
            if (i < self.off || i >= self.off + self.len) && *b != canary(i, self.salt) {
                return Some(i);
            }
        }
        None
    }
}

fn per_block(inst: &Inst, encrypt: bool, data: &[u8], bs: usize) -> Vec<u8> {
    let mut out = data.to_vec();
    for b in out.chunks_exact_mut(bs) {
        inst.run(encrypt, Shape::Block, None, b);
    }
    out
}

pub fn run(ctx: &Ctx) -> Report {
    let mut rep = Report::new("batch");
    let es = entries();
    let rounds = ctx.budget(2, 40, 1);
    for e in es.iter().filter(|e| ctx.wants(e)) {
        // the call-shape machinery is per type; conversion routes add nothing here except for
        // the AES/Kuznyechik pairs (different backend objects), which "new+new" covers
        if !(e.route == "new" || e.route == "new+new" || e.route == "tweak+block_u64" || e.route == "raw") {
            continue;
        }
        let id = e.id();
        let mut rng = ctx.rng(&format!("batch:{}", id));
        for round in 0..rounds {
            let kc = gen::pick_class(&mut rng, round);
            let key = entry_key(e, &mut rng, kc);
            let inst = match (e.make)(&key) {
                Made::Ok(x) => x,
                _ => continue,
            };
            let bs = inst.bs();
            for encrypt in [true, false] {
                let w = inst.width(encrypt);
                rep.set(&id, if encrypt { "width_enc" } else { "width_dec" }, w as i64);
                let mut ns: Vec<usize> = (0..=3 * w + 2).collect();
                ns.push(3 * w + 3 + rng.below(300usize.saturating_sub(3 * w + 3).max(1)));
                if ctx.scale < 0.05 {
                    // sanitizer / interpreter slices: the interesting counts only
                    ns = vec![0, 1, w.saturating_sub(1), w, w + 1, 2 * w + 1];
                    ns.dedup();
                }
                for &n in &ns {
                    let content = rng.below(3);
                    let mut data = vec![0u8; n * bs];
                    match content {
                        0 => rng.fill(&mut data),
                        1 => {
                            // all blocks equal
                            let b = gen::gen(&mut rng, bs, 0);
                            for c in data.chunks_exact_mut(bs) {
                                c.copy_from_slice(&b);
                            }
                        }
                        _ => {
                            // one-hot batch: one random block among structured ones
                            let cls = gen::pick_class(&mut rng, 1);
                            for c in data.chunks_exact_mut(bs) {
                                c.copy_from_slice(&gen::gen(&mut rng, bs, cls));
                            }
                            if n > 0 {
                                let j = rng.below(n);
                                let b = gen::gen(&mut rng, bs, 0);
                                data[j * bs..(j + 1) * bs].copy_from_slice(&b);
                            }
                        }
                    }
                    let want = per_block(&inst, encrypt, &data, bs);
                    let shapes: Vec<Shape> = if ctx.tier == Tier::Quick && n > 2 * w + 1 {
                        vec![Shape::Blocks, Shape::BlocksB2b, Shape::BackendPar, Shape::BackendParInplace]
                    } else {
                        ALL_SHAPES.to_vec()
                    };
                    for shape in shapes {
                        // offsets: in-place and separate allocations at byte offsets 0..15
                        let noff = if ctx.tier == Tier::Quick { 1 } else { 3 };
                        for _ in 0..noff {
                            let (oi, oo) = (rng.below(16), rng.below(16));
                            let separate = shape.needs_input() || rng.below(2) == 0;
                            let mut outa = Arena::new(n * bs, oo, 0x11);
                            let mut ina = Arena::new(n * bs, oi, 0x77);
                            let what;
                            if separate {
                                ina.payload().copy_from_slice(&data);
                                // pre-fill the output with something recognisable
                                for (i, b) in outa.payload().iter_mut().enumerate() {
                                    *b = 0xC3 ^ i as u8;
                                }
                                let inp: Vec<u8>; // keep `ina` borrowed immutably only
                                inp = ina.payload_ref().to_vec();
                                let _ = inp;
                                let (ia, oa) = (&ina, &mut outa);
                                inst.run(encrypt, shape, Some(ia.payload_ref()), oa.payload());
                                what = "separate in/out";
                                if ina.payload_ref() != &data[..] {
                                    rep.violation(
                                        format!("batch|{}|{}|{}|input buffer modified", id, dir(encrypt), shape.name()),
                                        detail(&id, &key, &data, &data, ina.payload_ref(), &format!("n={} off_in={} off_out={}", n, oi, oo)),
                                    );
                                }
                                if let Some(p) = ina.guards_intact() {
                                    rep.violation(
                                        format!("batch|{}|{}|{}|write outside buffers (input arena)", id, dir(encrypt), shape.name()),
                                        detail(&id, &key, &data, &[], &[], &format!("n={} arena byte {} changed", n, p)),
                                    );
                                }
                            } else {
                                outa.payload().copy_from_slice(&data);
                                inst.run(encrypt, shape, None, outa.payload());
                                what = "in place";
                            }
                            rep.case(case_hash(&id, &key, &data, (shape as u64) << 8 | (oi as u64) << 4 | oo as u64 | (encrypt as u64) << 16 | (separate as u64) << 17), n > 0);
                            rep.bump(&id, shape.name(), 1);
                            rep.count(&format!("n_mod_w:{}", if w > 1 { if n == 0 { "zero" } else if n < w { "lt_w" } else if n % w == 0 { "multiple" } else { "gt_w_tail" } } else { "w1" }), 1);
                            if outa.payload_ref() != &want[..] {
                                let got = outa.payload_ref().to_vec();
                                let bad = got.chunks_exact(bs).zip(want.chunks_exact(bs)).position(|(a, b)| a != b).unwrap_or(0);
                                rep.violation(
                                    format!("batch|{}|{}|{}|output block != single-block result", id, dir(encrypt), shape.name()),
                                    detail(&id, &key, &data, &want, &got, &format!("n={} w={} first bad block {} ({}) off_in={} off_out={}", n, w, bad, what, oi, oo)),
                                );
                            }
                            if let Some(p) = outa.guards_intact() {
                                rep.violation(
                                    format!("batch|{}|{}|{}|write outside designated output blocks", id, dir(encrypt), shape.name()),
                                    detail(&id, &key, &data, &[], &[], &format!("n={} w={} arena byte {} changed (payload at {}..{})", n, w, p, outa.off, outa.off + outa.len)),
                                );
                            }
                        }
                    }
                    // non-interference: perturb block j, all other outputs must stay
                    if n >= 2 {
                        let j = rng.below(n);
                        let mut d2 = data.clone();
                        let pos = j * bs + rng.below(bs);
                        d2[pos] ^= 1 << rng.below(8);
                        let mut o1 = data.clone();
                        inst.run(encrypt, Shape::Blocks, None, &mut o1);
                        let mut o2 = d2.clone();
                        inst.run(encrypt, Shape::Blocks, None, &mut o2);
                        rep.case(case_hash(&id, &key, &d2, 999 + encrypt as u64), true);
                        for i in 0..n {
                            let same = o1[i * bs..(i + 1) * bs] == o2[i * bs..(i + 1) * bs];
                            if i != j && !same {
                                rep.violation(
                                    format!("batch|{}|{}|output block depends on another input block", id, dir(encrypt)),
                                    detail(&id, &key, &data, &o1, &o2, &format!("n={} w={} perturbed block {} changed output block {}", n, w, j, i)),
                                );
                                break;
                            }
                            if i == j && same {
                                rep.violation(
                                    format!("batch|{}|{}|output block ignores its own input block", id, dir(encrypt)),
                                    detail(&id, &key, &data, &o1, &o2, &format!("n={} w={} perturbed block {} unchanged", n, w, j)),
                                );
                            }
                        }
                    }
                }
            }
            if round == 0 {
                rep.sample(J::obj(vec![("type", J::s(&id)), ("key", J::s(gen::hex(&key))), ("widths", J::s(format!("{}/{}", inst.width(true), inst.width(false)))), ("shapes", J::I(ALL_SHAPES.len() as i64))]));
            }
        }
    }
    rep
}

fn dir(encrypt: bool) -> &'static str {
    if encrypt {
        "encrypt"
    } else {
        "decrypt"
    }
}
