//! Monitors: each observes executions of the real code and judges them with an oracle.
use crate::gen;
use crate::registry::Entry;
use crate::report::{Report, J};
use crate::rng::{fnv64, Rng};

pub mod batch;
pub mod bcrypt;
pub mod history;
pub mod hazmat;
pub mod total;
pub mod xconfig;
pub mod keylen;
pub mod names;
pub mod wblock;
pub mod zeroize;
pub mod weak;
pub mod kat;
pub mod roundtrip;

#[derive(Clone, Copy, PartialEq, Eq, Debug)]
pub enum Tier {
    Quick,
    Thorough,
}

pub struct Ctx {
    pub seed: u64,
    pub shard: u64,
    pub nshards: u64,
    pub tier: Tier,
    pub cfg: String,
    pub detect_off: bool,
    /// multiplies every case budget (e.g. 0.01 for Miri / valgrind slices)
    pub scale: f64,
    /// only entries/types whose id contains this substring
    pub filter: Option<String>,
    /// only entries of this property (kat)
    pub prop: Option<String>,
    /// skip shadow-crate entries
    pub no_shadow: bool,
    /// interpreter / sanitizer slices: only entries whose (name hash + seed) mod M equals the
    /// shard number are run, so each shard takes a disjoint 1/M slice that moves with the seed
    pub sample_mod: Option<u64>,
    /// raw command line (monitor-specific flags)
    pub flags: Vec<String>,
    /// only these construction routes (exact names)
    pub routes: Option<Vec<String>>,
}
impl Ctx {
    /// interpreter / valgrind slices (tiny budgets): exhaustive sub-sweeps are sampled instead
    pub fn light(&self) -> bool {
        self.scale < 0.05
    }
    pub fn rng(&self, tag: &str) -> Rng {
        Rng::new(self.seed, tag, self.shard)
    }
    /// Budget `quick`/`thorough` scaled and divided over the shards (at least `min`).
    pub fn budget(&self, quick: u64, thorough: u64, min: u64) -> u64 {
        let b = if self.tier == Tier::Quick { quick } else { thorough } as f64 * self.scale / self.nshards as f64;
        (b as u64).max(min)
    }
    pub fn sampled(&self, id: &str) -> bool {
        match self.sample_mod {
            Some(m) if m > 0 => fnv64(id.as_bytes()).wrapping_add(self.seed) % m == self.shard % m,
            _ => true,
        }
    }
    pub fn wants(&self, e: &Entry) -> bool {
        if self.no_shadow && e.shadow {
            return false;
        }
        if !self.sampled(&e.id()) {
            return false;
        }
        if let Some(p) = &self.prop {
            if e.prop != p {
                return false;
            }
        }
        if let Some(r) = &self.routes {
            if !r.iter().any(|x| x == e.route) {
                return false;
            }
        }
        match &self.filter {
            Some(f) => e.id().contains(f.as_str()),
            None => true,
        }
    }
    pub fn wants_name(&self, name: &str) -> bool {
        if self.no_shadow && name.starts_with("S:") {
            return false;
        }
        if !self.sampled(name) {
            return false;
        }
        match &self.filter {
            Some(f) => name.contains(f.as_str()),
            None => true,
        }
    }
}

pub fn case_hash(id: &str, key: &[u8], data: &[u8], tag: u64) -> u64 {
    let mut h = fnv64(id.as_bytes());
    h = h.rotate_left(13) ^ fnv64(key);
    h = h.rotate_left(13) ^ fnv64(data);
    h.rotate_left(7) ^ tag
}

pub fn detail(entry: &str, key: &[u8], input: &[u8], expected: &[u8], got: &[u8], what: &str) -> J {
    J::obj(vec![
        ("type", J::s(entry)),
        ("key", J::s(gen::hex(key))),
        ("input", J::s(gen::hex(input))),
        ("expected", J::s(gen::hex(expected))),
        ("got", J::s(gen::hex(got))),
        ("what", J::s(what)),
    ])
}

/// Generate key material for an entry (entries with a custom generator handled here).
pub fn entry_key(e: &Entry, rng: &mut Rng, class: usize) -> Vec<u8> {
    if e.family == "rc2-eff" {
        crate::registry::rc2_eff_key(rng, class)
    } else {
        e.gen_key(rng, class)
    }
}

pub fn note_classes(rep: &mut Report, kc: usize, bc: usize) {
    rep.count(&format!("keyclass:{}", gen::CLASS_NAMES[kc % gen::NCLASS]), 1);
    rep.count(&format!("blockclass:{}", gen::CLASS_NAMES[bc % gen::NCLASS]), 1);
}
