//! C19: Debug output is key-independent and names the instance's own type; AlgorithmName
//! identifies the algorithm and its parameters.
use super::*;
use crate::registry::{types, TypeInfo};
use std::collections::BTreeMap;

fn norm(s: &str) -> String {
    s.chars().filter(|c| c.is_ascii_alphanumeric()).collect::<String>().to_lowercase()
}
fn digit_runs(s: &str) -> Vec<String> {
    let mut out = Vec::new();
    let mut cur = String::new();
    for c in s.chars() {
        if c.is_ascii_digit() {
            cur.push(c);
        } else if !cur.is_empty() {
            out.push(std::mem::take(&mut cur));
        }
    }
    if !cur.is_empty() {
        out.push(cur);
    }
    out
}
fn is_subsequence(need: &[String], have: &[String]) -> bool {
    let mut i = 0;
    for h in have {
        if i < need.len() && *h == need[i] {
            i += 1;
        }
    }
    i == need.len()
}

/// family words (alternatives separated by '|') must occur in the normalised text and the
/// numeric parameters must occur, in order, among its digit runs.
fn names_algorithm(t: &TypeInfo, text: &str) -> Result<(), String> {
    let n = norm(text);
    for w in t.name_family {
        if !w.split('|').any(|alt| n.contains(alt)) {
            return Err(format!("does not mention '{}'", w));
        }
    }
    let mut need: Vec<String> = Vec::new();
    // digits that are part of the family word itself (rc5, cast5, sm4, gost89 ...) come first
    for w in t.name_family {
        let alt = w.split('|').find(|alt| n.contains(*alt)).unwrap_or("");
        need.extend(digit_runs(alt));
    }
    need.extend(t.name_params.iter().cloned());
    let have = digit_runs(text);
    if !is_subsequence(&need, &have) {
        return Err(format!("parameters {:?} not all present in order (numbers shown: {:?})", t.name_params, have));
    }
    Ok(())
}

/// Acceptable normalised Debug heads for a type: its identifier and public spellings of
/// exactly that type.
fn own_heads(t: &TypeInfo) -> Vec<String> {
    let mut v = vec![norm(&t.ident)];
    match t.name.trim_start_matches("S:").split("::").last().unwrap_or("") {
        "Magma" => v.extend(["gost89tc26".to_string(), "gost89magma".to_string()]),
        "Gost89Test" => v.extend(["gost89testsbox".to_string(), "gost89test".to_string()]),
        "Blowfish" => v.push("blowfishbe".into()),
        "BlowfishLE" => v.push("blowfishle".into()),
        _ => {}
    }
    if t.name.contains("UserSbox") {
        v.extend(["gost89user".to_string(), "gost89usersbox".to_string()]);
    }
    v
}

pub fn run(ctx: &Ctx) -> Report {
    let mut rep = Report::new("names");
    let ts = types();
    let nkeys = ctx.budget(64, 2000, 16);
    let all_idents: Vec<(String, String)> = ts.iter().map(|t| (t.name.clone(), norm(&t.ident))).collect();
    let mut alg_names: BTreeMap<String, (String, String)> = BTreeMap::new(); // name -> (group, type)
    for t in ts.iter() {
        if !ctx.wants_name(&t.name) {
            continue;
        }
        let mut rng = ctx.rng(&format!("names:{}", t.name));
        // ---- Debug
        if let Some(dbg) = t.debug {
            let lens: Vec<usize> = (0..=300).filter(|l| (t.accepts)(*l)).collect();
            let mut first: Option<(Vec<u8>, String)> = None;
            let mut shown = 0;
            for i in 0..nkeys {
                if lens.is_empty() {
                    break;
                }
                let len = lens[rng.below(lens.len())];
                let cl = if i < 4 { [1usize, 2, 7, 10][i as usize] } else { gen::pick_class(&mut rng, i) };
                let key = gen::gen(&mut rng, len, cl);
                let text = match std::panic::catch_unwind(|| dbg(&key)) {
                    Ok(Some(s)) => s,
                    _ => continue, // construction trouble is owned by C10/C11
                };
                shown += 1;
                rep.case(case_hash(&t.name, &key, &[], 1), gen::class_is_random(cl) && len >= 8);
                match &first {
                    None => first = Some((key.clone(), text.clone())),
                    Some((k0, t0)) => {
                        if *t0 != text {
                            rep.violation(
                                format!("names|{}|Debug output depends on the key", t.name),
                                J::obj(vec![("type", J::s(&t.name)), ("key_a", J::s(gen::hex(k0))), ("debug_a", J::s(t0)), ("key_b", J::s(gen::hex(&key))), ("debug_b", J::s(&text))]),
                            );
                            break;
                        }
                    }
                }
                // no key bytes in hex or decimal-list form (a derived Debug would print them)
                if len >= 8 {
                    let hx = gen::hex(&key[..8]);
                    if text.to_lowercase().contains(&hx) {
                        rep.violation(format!("names|{}|Debug output contains key bytes", t.name), J::obj(vec![("type", J::s(&t.name)), ("debug", J::s(&text))]));
                    }
                }
            }
            rep.set(&t.name, "debug_keys", shown);
            if let Some((_, text)) = &first {
                let head = text.split('{').next().unwrap_or("").trim().to_string();
                let nh = norm(&head);
                let own = own_heads(t);
                let generic = t.ident == "RC5";
                let ok = if generic { names_algorithm(t, &head).is_ok() } else { own.contains(&nh) };
                if !ok {
                    // which other type does it name, if any?
                    let other = all_idents.iter().find(|(n, id)| *id == nh && *n != t.name).map(|(n, _)| n.clone());
                    let sig = match other {
                        Some(o) => format!("names|{}|Debug names another type: \"{}\" is {}", t.name, head, o.trim_start_matches("S:")),
                        None if generic => format!("names|{}|Debug does not show the type's parameters: \"{}\"", t.name, head),
                        None => format!("names|{}|Debug does not name the type: \"{}\"", t.name, head),
                    };
                    rep.violation(sig, J::obj(vec![("type", J::s(&t.name)), ("debug", J::s(text)), ("accepted", J::A(own.iter().map(J::s).collect()))]));
                }
                rep.sample(J::obj(vec![("type", J::s(&t.name)), ("debug", J::s(text)), ("alg_name", J::s(t.alg_name.map(|f| f()).unwrap_or_default()))]));
            }
        }
        // ---- AlgorithmName
        if let Some(an) = t.alg_name {
            let name = an();
            rep.case(case_hash(&t.name, &[], name.as_bytes(), 2), false);
            if let Err(why) = names_algorithm(t, &name) {
                rep.violation(
                    format!("names|{}|AlgorithmName \"{}\" {}", t.name, name, why),
                    J::obj(vec![("type", J::s(&t.name)), ("alg_name", J::s(&name)), ("family", J::A(t.name_family.iter().map(|s| J::s(*s)).collect())), ("params", J::A(t.name_params.iter().map(J::s).collect()))]),
                );
            }
            // a name may be the type's own identifier or its family's combined type; it must not be
            // the identifier of some other type (e.g. a decrypt-only type calling itself "...Enc")
            let nn = norm(&name);
            let own = norm(&t.ident);
            let combined = own.trim_end_matches("enc").trim_end_matches("dec").to_string();
            if nn != own && nn != combined {
                if let Some((other, _)) = all_idents.iter().find(|(n, id)| *id == nn && n.trim_start_matches("S:").split("::").next() == t.name.trim_start_matches("S:").split("::").next()) {
                    rep.violation(
                        format!("names|{}|AlgorithmName \"{}\" is the name of another type ({})", t.name, name, other.trim_start_matches("S:")),
                        J::obj(vec![("type", J::s(&t.name)), ("alg_name", J::s(&name)), ("other", J::s(other))]),
                    );
                }
            }
            if name.starts_with("<<") {
                rep.violation(format!("names|{}|write_alg_name panicked", t.name), J::obj(vec![("type", J::s(&t.name)), ("alg_name", J::s(&name))]));
            }
            let group = format!("{}|{:?}|{:?}", t.krate, t.name_family, t.name_params);
            if let Some((g0, t0)) = alg_names.get(&name) {
                if *g0 != group {
                    rep.violation(
                        format!("names|{}|AlgorithmName \"{}\" is shared with a different algorithm {}", t.name, name, t0),
                        J::obj(vec![("type", J::s(&t.name)), ("other", J::s(t0)), ("alg_name", J::s(&name))]),
                    );
                }
            } else {
                alg_names.insert(name.clone(), (group, t.name.clone()));
            }
            rep.set(&t.name, "alg_name_checked", 1);
        }
    }
    // ---- user-supplied S-boxes with long names: the S-box parameter must stay identifiable
    if ctx.wants_name("magma::Gost89<long-named user S-box>") {
        let mut rng = ctx.rng("names:longsbox");
        let mut seen: BTreeMap<String, &'static str> = BTreeMap::new();
        let mut seen_alg: BTreeMap<String, &'static str> = BTreeMap::new();
        let mut first: BTreeMap<&'static str, String> = BTreeMap::new();
        for i in 0..ctx.budget(8, 64, 2) {
            let cl = if i == 0 { 1 } else { gen::pick_class(&mut rng, i) };
            let key = gen::gen(&mut rng, 32, cl);
            for (sname, dbg, alg) in crate::registry::long_sbox_names(&key) {
                let ty = format!("magma::Gost89<user S-box named \"{}\">", if sname.len() > 40 { &sname[..sname.char_indices().nth(40).map(|(p, _)| p).unwrap_or(sname.len())] } else { sname });
                rep.case(case_hash(&ty, &key, &[], 3), i > 0);
                if let Some(d0) = first.get(sname) {
                    if *d0 != dbg {
                        rep.violation(format!("names|{}|Debug output depends on the key", ty), J::obj(vec![("sbox_name", J::s(sname)), ("debug_a", J::s(d0)), ("debug_b", J::s(&dbg)), ("key_b", J::s(gen::hex(&key)))]));
                    }
                    continue;
                }
                first.insert(sname, dbg.clone());
                for (what, text) in [("Debug", &dbg), ("AlgorithmName", &alg)] {
                    if !text.contains(sname) || !norm(text).contains("gost89") {
                        rep.violation(
                            format!("names|{}|{} does not show the S-box parameter's full name", ty, what),
                            J::obj(vec![("sbox_name", J::s(sname)), ("text", J::s(text)), ("name_len", J::I(sname.len() as i64))]),
                        );
                    }
                }
                if let Some(o) = seen.insert(dbg.clone(), sname) {
                    rep.violation(format!("names|{}|Debug text is shared with a different S-box parameter", ty), J::obj(vec![("sbox_name", J::s(sname)), ("other", J::s(o)), ("text", J::s(&dbg))]));
                }
                if let Some(o) = seen_alg.insert(alg.clone(), sname) {
                    rep.violation(format!("names|{}|AlgorithmName is shared with a different S-box parameter", ty), J::obj(vec![("sbox_name", J::s(sname)), ("other", J::s(o)), ("text", J::s(&alg))]));
                }
                rep.sample(J::obj(vec![("type", J::s(&ty)), ("debug", J::s(&dbg)), ("alg_name", J::s(&alg))]));
                rep.set(&ty, "long_sbox_name_checked", 1);
            }
        }
    }
    rep
}
