//! C03: the same canonical case list is run in every configuration; a digest of every output
//! is logged under a configuration-independent case id, and the offline checker joins the
//! logs pairwise. Shadow crates log under the name of the real type they shadow.
use super::*;
use crate::dynciph::Shape;
use crate::registry::{entries, Made};

/// "S:aes_armv8::Aes128" -> "aes::Aes128"; "S:kuz_neon::X" -> "kuznyechik::X"
pub fn canonical(name: &str) -> String {
    if let Some(rest) = name.strip_prefix("S:") {
        let (krate, ty) = rest.split_once("::").unwrap_or((rest, ""));
        let real = if krate.starts_with("aes") { "aes" } else if krate.starts_with("kuz") { "kuznyechik" } else { krate };
        format!("{}::{}", real, ty)
    } else {
        name.to_string()
    }
}

pub fn run(ctx: &Ctx) -> Report {
    let mut rep = Report::new("xconfig");
    let es = entries();
    let nkeys = ctx.budget(400, 6000, 2);
    let mut xlog: std::collections::BTreeMap<String, J> = Default::default();
    for e in es.iter().filter(|e| ctx.wants(e)) {
        // canonical routes only (route equivalence is C12's business)
        // (plus the clone routes of the AES / Kuznyechik wrappers: their hand-written Clone differs per
        // detection outcome and backend)
        let wrapper = e.family == "aes" || e.family == "kuznyechik";
        if !(e.route == "new" || e.route == "new+new" || (wrapper && (e.route == "clone" || e.route == "clone+clone"))) {
            continue;
        }
        // AES, Kuznyechik, Serpent at full volume; everything else at a quarter
        let heavy = matches!(e.krate, "aes" | "kuznyechik" | "serpent");
        let nk = if heavy { nkeys } else { (nkeys / 4).max(2) };
        let cid = format!("{}#{}", canonical(&e.name), e.route);
        // the stream depends on the canonical id only: every configuration and every shadow
        // sees exactly the same keys and blocks
        let mut rng = ctx.rng(&format!("xconfig:{}", cid));
        let mut log: Vec<J> = Vec::new();
        for i in 0..nk {
            let kc = gen::pick_class(&mut rng, i);
            let key = entry_key(e, &mut rng, kc);
            // fixed batch sizes (independent of this backend's width!) covering every width in use
            let n = [1usize, 2, 3, 5, 9, 10, 18, 22, 23, 43][(i % 10) as usize];
            let bc = gen::pick_class(&mut rng, i + 1);
            let mut data = Vec::new();
            for b in 0..n {
                let cl = if b % 2 == 0 { 0 } else { bc };
                data.extend(gen::gen(&mut rng, e_block(e), cl));
            }
            let inst = match (e.make)(&key) {
                Made::Ok(x) => x,
                _ => {
                    log.push(J::S("construct-failed".into()));
                    continue;
                }
            };
            if inst.bs() != e_block(e) {
                rep.inconclusive.push(format!("{}: block size table mismatch", cid));
                break;
            }
            let mut enc = data.clone();
            inst.run(true, Shape::Blocks, None, &mut enc);
            let mut dec = data.clone();
            inst.run(false, Shape::Blocks, None, &mut dec);
            let d = super::total::digest(&enc).rotate_left(17) ^ super::total::digest(&dec);
            rep.case(case_hash(&cid, &key, &data, 1), true);
            note_classes(&mut rep, kc, bc);
            log.push(J::S(format!("{:016x}", d)));
            if i == 0 {
                rep.set(&e.id(), "width_enc", inst.width(true) as i64);
                rep.set(&e.id(), "width_dec", inst.width(false) as i64);
                rep.sample(J::obj(vec![("case", J::s(format!("{}[0]", cid))), ("impl", J::s(e.id())), ("key", J::s(gen::hex(&key))), ("n_blocks", J::I(n as i64)), ("digest", J::s(format!("{:016x}", d)))]));
            }
        }
        // a shadow and the real crate both log under `cid`; keep them apart by implementation
        let slot = if e.shadow { format!("{}@{}", cid, e.name.split("::").next().unwrap_or("")) } else { cid.clone() };
        xlog.insert(slot, J::A(log));
    }
    // the hazmat round functions are also "what the crate computes" in every configuration
    #[cfg(feature = "hazmat")]
    if ctx.wants_name("aes::hazmat") {
        let mut rng = ctx.rng("xconfig:aes::hazmat");
        let mut log: Vec<J> = Vec::new();
        for i in 0..ctx.budget(400, 6000, 4) {
            let cl = gen::pick_class(&mut rng, i);
            let mut blocks: aes::hazmat::Block8 = Default::default();
            let mut keys: aes::hazmat::Block8 = Default::default();
            for j in 0..8 {
                blocks[j].copy_from_slice(&gen::gen(&mut rng, 16, if j % 2 == 0 { 0 } else { cl }));
                keys[j].copy_from_slice(&gen::gen(&mut rng, 16, 0));
            }
            let mut acc = 0u64;
            let mut b = blocks.clone();
            aes::hazmat::cipher_round_par(&mut b, &keys);
            acc = acc.rotate_left(9) ^ super::total::digest(&flat(&b));
            let mut b = blocks.clone();
            aes::hazmat::equiv_inv_cipher_round_par(&mut b, &keys);
            acc = acc.rotate_left(9) ^ super::total::digest(&flat(&b));
            let mut x = blocks[0].clone();
            aes::hazmat::cipher_round(&mut x, &keys[0]);
            aes::hazmat::equiv_inv_cipher_round(&mut x, &keys[1]);
            aes::hazmat::mix_columns(&mut x);
            acc = acc.rotate_left(9) ^ super::total::digest(&x);
            aes::hazmat::inv_mix_columns(&mut x);
            aes::hazmat::inv_mix_columns(&mut x);
            acc = acc.rotate_left(9) ^ super::total::digest(&x);
            rep.case(case_hash("aes::hazmat", &flat(&keys), &flat(&blocks), 2), true);
            log.push(J::S(format!("{:016x}", acc)));
        }
        rep.set("aes::hazmat", "cases", log.len() as i64);
        xlog.insert("aes::hazmat#functions".into(), J::A(log));
    }
    rep.extra.insert("x_log".into(), J::O(xlog));
    rep
}

#[cfg(feature = "hazmat")]
fn flat(b: &aes::hazmat::Block8) -> Vec<u8> {
    b.iter().flat_map(|x| x.iter().cloned()).collect()
}

fn e_block(e: &crate::registry::Entry) -> usize {
    match e.krate {
        "aes" | "aria" | "camellia" | "sm4" | "kuznyechik" | "belt-block" | "serpent" | "twofish" | "cast6" | "gift" => 16,
        "des" | "magma" | "blowfish" | "cast5" | "idea" | "rc2" | "xtea" => 8,
        "threefish" => e.key_lens.first().map(|l| if e.family == "threefish-tweak" { l - 16 } else { *l }).unwrap_or(32),
        "speck" => match e.name.as_str() {
            n if n.contains("Speck32") => 4,
            n if n.contains("Speck48") => 6,
            n if n.contains("Speck64") => 8,
            n if n.contains("Speck96") => 12,
            _ => 16,
        },
        "rc5" => {
            let n = &e.name;
            if n.contains("<u8,") {
                2
            } else if n.contains("<u16,") {
                4
            } else if n.contains("<u32,") {
                8
            } else if n.contains("<u64,") {
                16
            } else {
                32
            }
        }
        _ => 16,
    }
}
