//! C15: results depend only on key and input: random operation histories over pools of live
//! instances, threads hammering shared instances, and first-use races in fresh processes.
use super::*;
use crate::dynciph::{Inst, Shape};
use crate::registry::{entries, Entry, Made};
use refmodels::RefCipher;
use std::sync::atomic::{AtomicUsize, Ordering};
use std::sync::{Arc, Barrier};

struct Slot {
    eidx: usize,
    key: Vec<u8>,
    inst: Inst,
    reference: Box<dyn RefCipher>,
    ops: u64,
}

fn make_slot(es: &[Entry], pool: &[usize], rng: &mut crate::rng::Rng, reuse_key: Option<&[u8]>, eidx: Option<usize>) -> Option<Slot> {
    let eidx = eidx.unwrap_or_else(|| pool[rng.below(pool.len())]);
    let e = &es[eidx];
    let key = match reuse_key {
        Some(k) => k.to_vec(),
        None => {
            let r7 = rng.next() % 7;
            let cl = gen::pick_class(rng, r7);
            entry_key(e, rng, cl)
        }
    };
    let reference = (e.reference)(&key)?;
    let inst = match (e.make)(&key) {
        Made::Ok(i) => i,
        _ => return None,
    };
    Some(Slot { eidx, key, inst, reference, ops: 0 })
}

fn check_op(rep: &mut Report, id: &str, s: &Slot, rng: &mut crate::rng::Rng, tag: &str) {
    let bs = s.inst.bs();
    let encrypt = rng.below(2) == 0;
    let n = if rng.below(3) == 0 { 1 + rng.below(2 * s.inst.width(encrypt) + 3) } else { 1 };
    let cl = gen::pick_class(rng, s.ops);
    let data = gen::gen(rng, n * bs, cl);
    let shape = if n == 1 { [Shape::Block, Shape::BlockB2b, Shape::BlockInout][rng.below(3)] } else { [Shape::Blocks, Shape::BlocksB2b, Shape::BlocksInout][rng.below(3)] };
    let mut got = data.clone();
    if shape.needs_input() || rng.below(2) == 0 {
        got.iter_mut().for_each(|b| *b = 0x99);
        s.inst.run(encrypt, shape, Some(&data), &mut got);
    } else {
        s.inst.run(encrypt, shape, None, &mut got);
    }
    let mut want = data.clone();
    for b in want.chunks_exact_mut(bs) {
        if encrypt {
            s.reference.encrypt(b)
        } else {
            s.reference.decrypt(b)
        }
    }
    rep.case(case_hash(id, &s.key, &data, s.ops), true);
    if got != want {
        rep.violation(
            format!("history|{}|result differs from f(key,input) {}", id, tag),
            detail(id, &s.key, &data, &want, &got, &format!("after {} earlier calls on this instance, shape {}", s.ops, shape.name())),
        );
    }
}

/// Entries used for histories: every AES/Kuznyechik route plus the canonical route of every
/// other type (the slow Kuznyechik reference keeps its share small).
fn history_pool(ctx: &Ctx, es: &[Entry]) -> Vec<usize> {
    es.iter()
        .enumerate()
        .filter(|(_, e)| ctx.wants(e) && !e.key_lens.is_empty())
        .filter(|(_, e)| e.family == "aes" || (e.family == "kuznyechik" && e.route != "new_fixed") || e.route == "new" || e.route == "clone" || (e.route == "clone_from" || e.route == "clone_from_near"))
        .map(|(i, _)| i)
        .collect()
}

pub fn run_history(ctx: &Ctx) -> Report {
    let mut rep = Report::new("history");
    let es = entries();
    let pool = history_pool(ctx, &es);
    if pool.is_empty() {
        rep.inconclusive.push("no entries selected".into());
        return rep;
    }
    let mut rng = ctx.rng("history");
    let nhist = ctx.budget(120, 1200, 1);
    let mut lens_hist: Vec<i64> = Vec::new();
    for h in 0..nhist {
        // interpreter slices: a dozen operations over two instances
        let light = cfg!(miri) || ctx.light();
        let len = if light { 12 } else if h % 10 == 0 { 3000 } else { 200 + rng.below(800) };
        let psize = if light { 2 } else { 2 + rng.below(7) };
        let mut slots: Vec<Slot> = Vec::new();
        while slots.len() < psize {
            if let Some(s) = make_slot(&es, &pool, &mut rng, None, None) {
                slots.push(s);
            }
        }
        // one long-lived instance that is compared with a fresh one at the end
        let long_lived = 0usize;
        for step in 0..len {
            let op = rng.below(20);
            let si = rng.below(slots.len());
            if op < 14 {
                let id = es[slots[si].eidx].id();
                check_op(&mut rep, &id, &slots[si], &mut rng, "");
                slots[si].ops += 1;
                rep.count("op:use", 1);
            } else if op < 16 && si != long_lived {
                // drop and construct something else in its place
                if let Some(s) = make_slot(&es, &pool, &mut rng, None, None) {
                    slots[si] = s;
                    rep.count("op:replace", 1);
                }
            } else if op < 18 {
                // a second instance with the same key through another route of the same type
                let e0 = &es[slots[si].eidx];
                let sibs: Vec<usize> = pool.iter().cloned().filter(|i| es[*i].name == e0.name && es[*i].key_lens == e0.key_lens && es[*i].family == e0.family).collect();
                let key = slots[si].key.clone();
                let sib = sibs[rng.below(sibs.len())];
                if let Some(s) = make_slot(&es, &pool, &mut rng, Some(&key), Some(sib)) {
                    let id = es[s.eidx].id();
                    check_op(&mut rep, &id, &s, &mut rng, "(sibling instance, same key)");
                    let t = rng.below(slots.len());
                    if t != long_lived {
                        slots[t] = s;
                    }
                    rep.count("op:sibling", 1);
                }
            } else if slots.len() > 2 && si != long_lived {
                slots.swap_remove(si);
                rep.count("op:drop", 1);
            } else if slots.len() < 8 {
                if let Some(s) = make_slot(&es, &pool, &mut rng, None, None) {
                    slots.push(s);
                    rep.count("op:construct", 1);
                }
            }
            let _ = step;
        }
        // long-lived vs fresh
        let key = slots[long_lived].key.clone();
        let eidx = slots[long_lived].eidx;
        if let Some(fresh) = make_slot(&es, &pool, &mut rng, Some(&key), Some(eidx)) {
            let bs = fresh.inst.bs();
            let data = gen::gen(&mut rng, bs * 7, 0);
            let (mut a, mut b) = (data.clone(), data.clone());
            slots[long_lived].inst.run(true, Shape::Blocks, None, &mut a);
            fresh.inst.run(true, Shape::Blocks, None, &mut b);
            rep.case(case_hash("long-lived", &key, &data, h), true);
            if a != b {
                rep.violation(format!("history|{}|long-lived instance differs from a fresh one", es[eidx].id()), detail(&es[eidx].id(), &key, &data, &b, &a, &format!("after {} calls", slots[long_lived].ops)));
            }
        }
        lens_hist.push(len as i64);
        if h == 0 {
            rep.sample(J::obj(vec![("history_length", J::I(len as i64)), ("pool", J::A(slots.iter().map(|s| J::s(es[s.eidx].id())).collect()))]));
        }
    }
    rep.extra.insert("x_history_lengths".into(), J::A(lens_hist.iter().take(20).map(|l| J::I(*l)).collect()));
    rep.set("histories", "count", nhist as i64);
    rep
}

pub fn run_threads(ctx: &Ctx) -> Report {
    let mut rep = Report::new("threads");
    let es = entries();
    let pool = history_pool(ctx, &es);
    let mut rng = ctx.rng("threads");
    // many short rounds on FRESH shared instances: whatever an instance does lazily on its first
    // call is hit by all threads at once (they leave a spin gate together and start with the same
    // decrypt on the same instance)
    let light = cfg!(miri) || ctx.light();
    let rounds = if light { ctx.budget(12000, 120000, 1).min(2) } else { ctx.budget(12000, 120000, 1) };
    let in_flight = Arc::new(AtomicUsize::new(0));
    let mut overlap_hist = vec![0u64; 33];
    for r in 0..rounds {
        let nthreads = [2usize, 4, 8, 16][rng.below(4)];
        // 3 shared instances, cases precomputed with the reference (single-threaded)
        let mut shared: Vec<(String, Vec<u8>, Inst, Vec<(bool, usize, Vec<u8>, Vec<u8>)>)> = Vec::new();
        // the instances must reach the threads untouched: nothing is called on them here (not even
        // the width probe, which would run whatever a type does lazily on its first call)
        let wrappers: Vec<usize> = pool.iter().cloned().filter(|i| es[*i].family == "aes" || es[*i].family == "kuznyechik").collect();
        // one canonical route per distinct type (the RC5 grid and the generated S-box types count as three each)
        let mut per_type: Vec<usize> = Vec::new();
        {
            let mut seen: Vec<String> = Vec::new();
            let (mut rc5, mut user) = (0, 0);
            for &i in pool.iter() {
                let e = &es[i];
                if !(e.route == "new" || e.route == "new+new") || seen.contains(&e.name) {
                    continue;
                }
                if e.family == "rc5" {
                    rc5 += 1;
                    if rc5 > 3 {
                        continue;
                    }
                }
                if e.name.contains("UserSbox") {
                    user += 1;
                    if user > 3 {
                        continue;
                    }
                }
                seen.push(e.name.clone());
                per_type.push(i);
            }
        }
        if per_type.is_empty() {
            per_type = pool.clone();
        }
        while shared.len() < 3 {
            // slot 0 (the instance every thread starts on and hammers): alternately an AES / Kuznyechik
            // wrapper route and a round-robin walk over ALL routes, so that over a run every type takes
            // its turn as the contended instance
            let pick = if !shared.is_empty() {
                None
            } else if r % 2 == 0 && !wrappers.is_empty() {
                Some(wrappers[rng.below(wrappers.len())])
            } else {
                Some(per_type[((ctx.seed as usize).wrapping_mul(7919) + (ctx.shard as usize) * 101 + (r as usize / 2)) % per_type.len()])
            };
            if let Some(s) = make_slot(&es, &pool, &mut rng, None, pick) {
                let bs = s.inst.bs();
                let mut cases = Vec::new();
                for c in 0..(if light { 6 } else { 24u64 }) {
                    let encrypt = c % 2 == 0;
                    let n = if c % 3 == 0 { [2usize, 3, 5, 9, 10, 19, 22, 43][rng.below(if light { 3 } else { 8 })] } else { 1 };
                    let cl = gen::pick_class(&mut rng, c);
                    let data = gen::gen(&mut rng, n * bs, cl);
                    let mut want = data.clone();
                    for b in want.chunks_exact_mut(bs) {
                        if encrypt {
                            s.reference.encrypt(b)
                        } else {
                            s.reference.decrypt(b)
                        }
                    }
                    cases.push((encrypt, n, data, want));
                }
                shared.push((es[s.eidx].id(), s.key.clone(), s.inst.clone(), cases));
            }
        }
        let shared = Arc::new(shared);
        let barrier = Arc::new(Barrier::new(nthreads));
        let gate = Arc::new(AtomicUsize::new(0));
        let iters = if cfg!(miri) { 6 } else { 60 };
        // a decrypt case of instance 0 for the common first call
        let first_case = shared[0].3.iter().position(|c| !c.0).unwrap_or(0);
        // two single-block encrypt cases of instance 0
        let singles: Vec<usize> = shared[0].3.iter().enumerate().filter(|(_, c)| c.0 && c.1 == 1).map(|(i, _)| i).collect();
        let hot_cases = [singles.first().cloned().unwrap_or(0), singles.get(1).cloned().unwrap_or(0)];
        let mut handles = Vec::new();
        for t in 0..nthreads {
            let shared = shared.clone();
            let barrier = barrier.clone();
            let gate = gate.clone();
            let in_flight = in_flight.clone();
            let seed = rng.next();
            handles.push(std::thread::spawn(move || {
                let mut lr = crate::rng::Rng::new(seed, "thread", t as u64);
                let mut bad: Vec<(usize, usize, Vec<u8>)> = Vec::new();
                let mut maxo = 0usize;
                let mut done = 0u64;
                barrier.wait();
                // spin gate: all threads are running before any of them starts
                gate.fetch_add(1, Ordering::SeqCst);
                while gate.load(Ordering::SeqCst) < nthreads {
                    std::hint::spin_loop();
                }
                for it in 0..iters {
                    // first call: the same decrypt on instance 0 for everybody; then a "hot" phase in which all
                    // threads repeat two single-block encryptions of instance 0 (maximal contention on repeated
                    // inputs: caches / memos keyed on the input show here); then random calls on all instances
                    let hot = it > 0 && it <= 2 * iters / 3;
                    let si = if it == 0 || hot { 0 } else { lr.below(shared.len()) };
                    let (_, _, inst, cases) = &shared[si];
                    let ci = if it == 0 { first_case } else if hot { hot_cases[lr.below(2)] } else { lr.below(cases.len()) };
                    let (encrypt, n, data, want) = &cases[ci];
                    // either the shared instance itself or a clone made concurrently (Arc clone of the same object)
                    let mut got = data.clone();
                    let now = in_flight.fetch_add(1, Ordering::SeqCst) + 1;
                    maxo = maxo.max(now);
                    let shape = if *n == 1 { Shape::Block } else { [Shape::Blocks, Shape::BackendPar][lr.below(2)] };
                    inst.run(*encrypt, shape, None, &mut got);
                    in_flight.fetch_sub(1, Ordering::SeqCst);
                    done += 1;
                    if &got != want && bad.len() < 3 {
                        bad.push((si, ci, got));
                    }
                }
                (bad, maxo, done)
            }));
        }
        for h in handles {
            let (bad, maxo, done) = h.join().expect("worker thread panicked");
            overlap_hist[maxo.min(32)] += 1;
            rep.eval_only(done);
            for (si, ci, got) in bad {
                let (id, key, _, cases) = &shared[si];
                rep.violation(format!("threads|{}|result on a shared instance differs from f(key,input)", id), detail(id, key, &cases[ci].2, &cases[ci].3, &got, &format!("{} threads", nthreads)));
            }
        }
        for (id, key, _, cases) in shared.iter() {
            for (ci, c) in cases.iter().enumerate() {
                rep.case(case_hash(id, key, &c.2, ci as u64 + r * 100), true);
            }
            rep.bump(id, "shared_rounds", 1);
        }
        rep.count(&format!("threads:{}", nthreads), 1);
    }
    rep.extra.insert("x_max_concurrent_calls_histogram".into(), J::A(overlap_hist.iter().map(|v| J::I(*v as i64)).collect()));
    let overlapped: u64 = overlap_hist[2..].iter().sum();
    if overlapped == 0 {
        rep.inconclusive.push("no two calls were ever in flight at the same time".into());
    }
    rep
}

/// One first-use trial in THIS (fresh) process: threads released together construct and use
/// AES types and hazmat functions immediately. Prints one line for the parent.
pub fn firstuse_child(args: &[String]) -> i32 {
    let get = |n: &str| args.iter().position(|a| a == n).and_then(|i| args.get(i + 1)).cloned();
    let seed: u64 = get("--trial-seed").and_then(|s| s.parse().ok()).unwrap_or(1);
    let nthreads: usize = get("--threads").and_then(|s| s.parse().ok()).unwrap_or(8);
    let mut rng = crate::rng::Rng::new(seed, "firstuse", 0);
    if args.iter().any(|a| a == "--cold") {
        return cold_start_child(&mut rng);
    }
    // expectations from the reference model (never touches CPU detection)
    let mut work = Vec::new();
    for t in 0..nthreads {
        let kl = [16usize, 24, 32][rng.below(3)];
        let key = rng.bytes(kl);
        let x = rng.bytes(16);
        let r = refmodels::aes::Aes::new(&key).unwrap();
        let mut want = x.clone();
        r.encrypt(&mut want);
        let mut wantd = x.clone();
        r.decrypt(&mut wantd);
        let rk: [u8; 16] = rng.bytes(16).try_into().unwrap();
        let mut hz: [u8; 16] = x.clone().try_into().unwrap();
        refmodels::aes::cipher_round(&mut hz, &rk);
        work.push((t, key, x, want, wantd, rk, hz));
    }
    let barrier = Arc::new(Barrier::new(nthreads));
    let mut hs = Vec::new();
    for (t, key, x, want, wantd, rk, hz) in work {
        let barrier = barrier.clone();
        hs.push(std::thread::spawn(move || {
            let es = entries();
            let mut bad = Vec::new();
            barrier.wait();
            // the very first use in this process, from several threads at once
            let which = t % 4;
            let names: Vec<&str> = match which {
                0 => vec!["aes::"],
                1 => vec!["aes::", "S:aes_armv8::"],
                2 => vec!["S:aes_armv8::", "aes::"],
                _ => vec!["aes::"],
            };
            #[cfg(feature = "hazmat")]
            if which == 3 {
                let mut b: aes::Block = <[u8; 16]>::try_from(&x[..]).unwrap().into();
                aes::hazmat::cipher_round(&mut b, &rk.into());
                if b[..] != hz[..] {
                    bad.push("aes::hazmat::cipher_round".to_string());
                }
            }
            for pfx in names {
                for e in es.iter().filter(|e| e.name.starts_with(pfx) && e.key_lens == vec![key.len()] && (e.route == "new" || e.route == "new+new" || e.route == "new+from_enc_ref")) {
                    if let Made::Ok(i) = (e.make)(&key) {
                        let mut c = x.clone();
                        i.enc1(&mut c);
                        let mut d = x.clone();
                        i.dec1(&mut d);
                        if c != want || d != wantd {
                            bad.push(e.id());
                        }
                    } else {
                        bad.push(format!("{} (construction failed)", e.id()));
                    }
                }
            }
            let _ = (&rk, &hz);
            bad
        }));
    }
    let mut bad_all = Vec::new();
    for h in hs {
        match h.join() {
            Ok(b) => bad_all.extend(b),
            Err(_) => bad_all.push("thread panicked".into()),
        }
    }
    #[cfg(any(target_arch = "x86_64", target_arch = "x86"))]
    let (calls, maxf) = (cpufeatures::verif::calls(), cpufeatures::verif::max_in_flight());
    #[cfg(not(any(target_arch = "x86_64", target_arch = "x86")))]
    let (calls, maxf) = (0, 0);
    println!("FIRSTUSE calls={} max_in_flight={} bad={}", calls, maxf, bad_all.join(";"));
    if bad_all.is_empty() {
        0
    } else {
        1
    }
}

/// Cold start: in a process that has done nothing yet, a short random sequence of construction
/// routes (conversions and clones first, with a bias towards AES and Kuznyechik) is run and
/// every result compared with the reference. Anything that is initialised lazily by *some*
/// constructors only, or cached from whichever instance came first, shows here.
fn cold_start_child(rng: &mut crate::rng::Rng) -> i32 {
    let es = entries();
    let usable: Vec<usize> = es.iter().enumerate().filter(|(_, e)| !e.key_lens.is_empty()).map(|(i, _)| i).collect();
    let conv: Vec<usize> = usable.iter().cloned().filter(|i| (es[*i].family == "aes" || es[*i].family == "kuznyechik") && es[*i].route != "new" && es[*i].route != "new_fixed").collect();
    let gost: Vec<usize> = usable.iter().cloned().filter(|i| es[*i].family == "gost89").collect();
    let mut bad: Vec<String> = Vec::new();
    let mut seq: Vec<String> = Vec::new();
    for step in 0..4 {
        let pool = match (step, rng.below(4)) {
            (0, 0) | (0, 1) => &conv,
            (_, 2) => &gost,
            _ => &usable,
        };
        let e = &es[pool[rng.below(pool.len())]];
        let cl = gen::pick_class(rng, step as u64);
        let key = entry_key(e, rng, cl);
        seq.push(e.id());
        let (r, inst) = match ((e.reference)(&key), (e.make)(&key)) {
            (Some(r), Made::Ok(i)) => (r, i),
            (Some(_), _) => {
                bad.push(format!("{} (construction failed)", e.id()));
                continue;
            }
            _ => continue,
        };
        let bs = inst.bs();
        for encrypt in [false, true] {
            let n = 1 + rng.below(3) * inst.width(encrypt);
            let data = rng.bytes(n * bs);
            let mut got = data.clone();
            inst.run(encrypt, if n == 1 { Shape::Block } else { Shape::Blocks }, None, &mut got);
            let mut want = data.clone();
            for b in want.chunks_exact_mut(bs) {
                if encrypt {
                    r.encrypt(b)
                } else {
                    r.decrypt(b)
                }
            }
            if got != want {
                bad.push(format!("{}:{}", e.id(), if encrypt { "encrypt" } else { "decrypt" }));
            }
        }
    }
    println!("FIRSTUSE calls=0 max_in_flight=0 cold={} bad={}", seq.join(">").replace(' ', ""), bad.join(";").replace(' ', "_"));
    if bad.is_empty() {
        0
    } else {
        1
    }
}

/// Parent: thousands of fresh processes, seeded delays inside detection.
pub fn run_firstuse(ctx: &Ctx) -> Report {
    let mut rep = Report::new("firstuse");
    let exe = std::env::current_exe().expect("current_exe");
    let trials = ctx.budget(400, 8000, 4);
    let mut rng = ctx.rng("firstuse");
    let mut hist = vec![0i64; 18];
    let mut calls_total = 0i64;
    let mut cold_trials = 0i64;
    let mut cold_first: std::collections::BTreeMap<String, i64> = Default::default();
    let par = 8usize;
    let mut i = 0u64;
    while i < trials {
        let mut kids = Vec::new();
        for _ in 0..par.min((trials - i) as usize) {
            let tseed = rng.next();
            let threads = [2usize, 4, 8, 16][rng.below(4)];
            // delay inside the detection window: none / short / long (up to ~1 ms)
            let delay = [0u64, 0, 2_000, 20_000, 200_000][rng.below(5)];
            let mut c = std::process::Command::new(&exe);
            c.arg("firstuse-child").args(["--trial-seed", &tseed.to_string(), "--threads", &threads.to_string(), "--detect-delay", &delay.to_string()]);
            // every second trial is a single-threaded cold-start sequence instead of a race
            if i % 2 == 1 {
                c.arg("--cold");
            }
            if ctx.detect_off {
                c.args(["--detect", "off"]);
            }
            c.stdout(std::process::Stdio::piped()).stderr(std::process::Stdio::piped());
            match c.spawn() {
                Ok(k) => kids.push((tseed, threads, delay, k)),
                Err(e) => rep.inconclusive.push(format!("spawn failed: {}", e)),
            }
            i += 1;
        }
        for (tseed, threads, delay, k) in kids {
            let out = match k.wait_with_output() {
                Ok(o) => o,
                Err(e) => {
                    rep.inconclusive.push(format!("wait failed: {}", e));
                    continue;
                }
            };
            let so = String::from_utf8_lossy(&out.stdout).to_string();
            let se = String::from_utf8_lossy(&out.stderr).to_string();
            let line = so.lines().find(|l| l.starts_with("FIRSTUSE")).unwrap_or("").to_string();
            rep.case(case_hash("firstuse", &tseed.to_le_bytes(), &[threads as u8], delay), true);
            let sanitizer = se.contains("ThreadSanitizer") || se.contains("AddressSanitizer");
            if line.is_empty() || sanitizer {
                let sig = if se.contains("ThreadSanitizer") {
                    "firstuse|data race reported by ThreadSanitizer at first use".to_string()
                } else if out.status.code().is_none() {
                    "firstuse|first-use process died from a signal".to_string()
                } else {
                    format!("firstuse|first-use process failed without a result (exit {:?})", out.status.code())
                };
                rep.violation(sig, J::obj(vec![("trial_seed", J::s(tseed.to_string())), ("threads", J::I(threads as i64)), ("delay", J::I(delay as i64)), ("stderr", J::s(se.chars().take(3000).collect::<String>()))]));
                continue;
            }
            let field = |n: &str| line.split_whitespace().find_map(|t| t.strip_prefix(n)).unwrap_or("").to_string();
            let calls: i64 = field("calls=").parse().unwrap_or(0);
            let maxf: usize = field("max_in_flight=").parse().unwrap_or(0);
            let bad = field("bad=");
            let cold = field("cold=");
            calls_total += calls;
            if cold.is_empty() {
                hist[maxf.min(17)] += 1;
            } else {
                cold_trials += 1;
                if let Some(first) = cold.split('>').next() {
                    *cold_first.entry(first.split('#').next().unwrap_or("").to_string()).or_insert(0i64) += 1;
                }
                if !bad.is_empty() {
                    rep.violation(
                        format!("firstuse|wrong result in a cold process: {}", bad.split(';').next().unwrap_or("")),
                        J::obj(vec![("trial_seed", J::s(tseed.to_string())), ("sequence", J::s(&cold)), ("bad", J::s(&bad))]),
                    );
                }
                continue;
            }
            if !bad.is_empty() {
                rep.violation(
                    format!("firstuse|wrong result at first use: {}", bad.split(';').next().unwrap_or("")),
                    J::obj(vec![("trial_seed", J::s(tseed.to_string())), ("threads", J::I(threads as i64)), ("delay", J::I(delay as i64)), ("bad", J::s(&bad))]),
                );
            }
        }
    }
    rep.extra.insert("x_concurrent_detections_histogram".into(), J::A(hist.iter().map(|v| J::I(*v)).collect()));
    rep.set("firstuse", "trials", trials as i64);
    rep.set("firstuse", "cold_start_trials", cold_trials);
    rep.set("firstuse", "cold_start_distinct_first_types", cold_first.len() as i64);
    rep.set("firstuse", "detections_run", calls_total);
    let racing: i64 = hist[2..].iter().sum();
    rep.set("firstuse", "trials_with_concurrent_detection", racing);
    rep.sample(J::obj(vec![("trials", J::I(trials as i64)), ("concurrent_detections_histogram", J::A(hist.iter().map(|v| J::I(*v)).collect()))]));
    if racing == 0 && !cfg!(miri) && trials >= 100 {
        rep.inconclusive.push("no trial had two detections in flight at once".into());
    }
    rep
}
