//! Known-answer monitors (C02, C05-C10): every output of the real code is compared with the
//! specification-literal reference model and, where libcrypto has the algorithm, with libcrypto.
use super::*;
use crate::dynciph::{Inst, Shape};
use crate::registry::{entries, Entry, Made};
use refmodels::RefCipher;

/// Single-block call shapes rotated by the case tag: in place, buffer-to-buffer and in/out over
/// separate buffers (the output buffer is pre-filled with a recognisable pattern), through the
/// front-end and directly through the backend.
const SINGLE_SHAPES: [(Shape, bool); 6] = [
    (Shape::Block, false),
    (Shape::BlockB2b, true),
    (Shape::BlockInout, true),
    (Shape::BackendBlockInplace, false),
    (Shape::BackendBlock, true),
    (Shape::Blocks, false),
];
const BATCH_SHAPES: [(Shape, bool); 6] = [
    (Shape::Blocks, false),
    (Shape::BlocksB2b, true),
    (Shape::BlocksInout, true),
    (Shape::BackendPar, false),
    (Shape::BackendParInplace, false),
    (Shape::BackendBlockInplace, true),
];

pub fn run_shape(inst: &Inst, encrypt: bool, shape: (Shape, bool), data: &[u8]) -> Vec<u8> {
    if shape.1 {
        let mut out: Vec<u8> = (0..data.len()).map(|i| 0xC3 ^ (i as u8).wrapping_mul(29)).collect();
        inst.run(encrypt, shape.0, Some(data), &mut out);
        out
    } else {
        let mut out = data.to_vec();
        inst.run(encrypt, shape.0, None, &mut out);
        out
    }
}

fn cmp_case(rep: &mut Report, e: &Entry, id: &str, inst: &Inst, r: &dyn RefCipher, key: &[u8], x: &[u8], random: bool, tag: u64) {
    let h = case_hash(id, key, x, tag);
    let shape = SINGLE_SHAPES[(h % 6) as usize];
    // encrypt
    let got = run_shape(inst, true, shape, x);
    let mut want = x.to_vec();
    r.encrypt(&mut want);
    rep.case(h, random);
    if got != want {
        rep.violation(format!("kat|{}|encrypt!=reference|keylen={}", id, key.len()), detail(id, key, x, &want, &got, &format!("encrypt vs reference model (shape {}{})", shape.0.name(), if shape.1 { ", separate buffers" } else { "" })));
    }
    // decrypt
    let shape = SINGLE_SHAPES[((h >> 8) % 6) as usize];
    let got = run_shape(inst, false, shape, x);
    let mut want = x.to_vec();
    r.decrypt(&mut want);
    rep.case(case_hash(id, key, x, tag + 1), random);
    if got != want {
        rep.violation(format!("kat|{}|decrypt!=reference|keylen={}", id, key.len()), detail(id, key, x, &want, &got, &format!("decrypt vs reference model (shape {}{})", shape.0.name(), if shape.1 { ", separate buffers" } else { "" })));
    }
    let _ = e;
}

fn evp_check(rep: &mut Report, e: &Entry, id: &str, inst: &Inst, key: &[u8], data: &[u8]) {
    let fam = match e.evp {
        Some(f) => f,
        None => return,
    };
    let name = match ossl::evp_name(fam, key.len()) {
        Some(n) => n,
        None => return,
    };
    for encrypt in [true, false] {
        let want = match ossl::ecb(&name, key, encrypt, data) {
            Some(w) => w,
            None => {
                rep.count("libcrypto_unavailable", 1);
                return;
            }
        };
        let mut got = data.to_vec();
        inst.run(encrypt, Shape::Blocks, None, &mut got);
        rep.eval_only(1);
        rep.count("libcrypto_comparisons", 1);
        rep.bump(id, "libcrypto", 1);
        if got != want {
            rep.violation(
                format!("kat|{}|{}!=libcrypto|keylen={}", id, if encrypt { "encrypt" } else { "decrypt" }, key.len()),
                detail(id, key, data, &want, &got, &format!("vs libcrypto {}", name)),
            );
        }
    }
}

/// Second foreign implementation: libgcrypt (IDEA, Twofish, Serpent, GOST 28147-89 by OID, and
/// overlap with libcrypto). GOST: libgcrypt uses little-endian words, Magma big-endian: each key
/// word is byte-swapped and each block reversed on the way in and out.
fn gcry_check(rep: &mut Report, e: &Entry, id: &str, inst: &Inst, key: &[u8], data: &[u8]) {
    use ossl::gcry as G;
    let mut k = key.to_vec();
    let mut oid: Option<&str> = None;
    let algo = match (e.family, key.len()) {
        ("aes", 16) => G::AES128,
        ("aes", 24) => G::AES192,
        ("aes", 32) => G::AES256,
        ("camellia", 16) => G::CAMELLIA128,
        ("camellia", 24) => G::CAMELLIA192,
        ("camellia", 32) => G::CAMELLIA256,
        ("sm4", 16) => G::SM4,
        ("des", 8) => G::DES,
        ("tdes-ede3", 24) => G::TDES,
        ("tdes-ede2", 16) => {
            k.extend_from_slice(&key[..8]);
            G::TDES
        }
        ("serpent", 16) => G::SERPENT128,
        ("serpent", 24) => G::SERPENT192,
        ("serpent", 32) => G::SERPENT256,
        ("twofish", 16) => G::TWOFISH128,
        ("twofish", 32) => G::TWOFISH,
        ("idea", 16) => G::IDEA,
        ("cast5", 16) => G::CAST5,
        ("blowfish", 16) => G::BLOWFISH,
        ("gost89", 32) => {
            oid = Some(match e.name.as_str() {
                "magma::Magma" => "1.2.643.7.1.2.5.1.1",
                // the crate's "Test" and "CryptoProD" tables are the GOST R 34.11-94 parameter sets
                "magma::Gost89Test" => "1.2.643.2.2.30.0",
                "magma::Gost89CryptoProA" => "1.2.643.2.2.31.1",
                "magma::Gost89CryptoProB" => "1.2.643.2.2.31.2",
                "magma::Gost89CryptoProC" => "1.2.643.2.2.31.3",
                "magma::Gost89CryptoProD" => "1.2.643.2.2.30.1",
                _ => return,
            });
            k = key.chunks(4).flat_map(|w| w.iter().rev().cloned().collect::<Vec<u8>>()).collect();
            G::GOST28147
        }
        _ => return,
    };
    let gost = e.family == "gost89";
    let conv = |d: &[u8]| -> Vec<u8> { if gost { d.chunks(8).flat_map(|b| b.iter().rev().cloned().collect::<Vec<u8>>()).collect() } else { d.to_vec() } };
    for encrypt in [true, false] {
        let want = match G::ecb(algo, &k, encrypt, &conv(data), oid) {
            Some(w) => conv(&w),
            None => {
                rep.count("libgcrypt_unavailable", 1);
                return;
            }
        };
        let mut got = data.to_vec();
        inst.run(encrypt, Shape::Blocks, None, &mut got);
        rep.eval_only(1);
        rep.count("libgcrypt_comparisons", 1);
        rep.bump(id, "libgcrypt", 1);
        if got != want {
            rep.violation(
                format!("kat|{}|{}!=libgcrypt|keylen={}", id, if encrypt { "encrypt" } else { "decrypt" }, key.len()),
                detail(id, key, data, &want, &got, &format!("vs libgcrypt algo {} {}", algo, oid.unwrap_or(""))),
            );
        }
    }
}

pub fn run(ctx: &Ctx) -> Report {
    run_selected(ctx, "kat", |_| true, true)
}

/// C12: every construction route of the AES and Kuznyechik types (Enc-only, Dec-only,
/// combined, converted by value / by reference, cloned, sources dropped before use) and the
/// clone of every other Clone type must compute the reference function for the key.
pub fn run_convert(ctx: &Ctx) -> Report {
    run_selected(ctx, "convert", |e| e.family == "aes" || e.family == "kuznyechik" || e.route == "clone" || (e.route == "clone_from" || e.route == "clone_from_near"), false)
}

fn run_selected(ctx: &Ctx, name: &str, select: fn(&Entry) -> bool, extras: bool) -> Report {
    let mut rep = Report::new(name);
    let es = entries();
    let nkeys = ctx.budget(2000, 30_000, 2);
    let have_ossl = ossl::available();
    let have_gcry = ossl::gcry::available();
    rep.extra.insert("libcrypto".into(), J::B(have_ossl));
    rep.extra.insert("libgcrypt".into(), J::B(have_gcry));
    for e in es.iter().filter(|e| ctx.wants(e) && select(e)) {
        let id = e.id();
        let mut rng = ctx.rng(&format!("kat:{}", id));
        let mut no_ref = 0;
        // Kuznyechik's literal reference model is slow (3e4 blocks/s): fewer keys, same classes
        let light = cfg!(miri) || ctx.light();
        let nk = if light { 1 + (nkeys > 2) as u64 } else if e.family == "kuznyechik" { (nkeys / 8).max(2) } else { nkeys };
        for i in 0..nk {
            let kc = gen::pick_class(&mut rng, i);
            let key = entry_key(e, &mut rng, kc);
            let r = match (e.reference)(&key) {
                Some(r) => r,
                None => {
                    no_ref += 1;
                    continue;
                }
            };
            let inst = match (e.make)(&key) {
                Made::Ok(x) => x,
                Made::Rejected => {
                    rep.violation(format!("kat|{}|constructor rejected a key the specification accepts|keylen={}", id, key.len()), detail(&id, &key, &[], &[], &[], "rejected"));
                    continue;
                }
                Made::Panic(m) => {
                    rep.violation(format!("kat|{}|constructor panicked on a key the specification accepts|keylen={}", id, key.len()), detail(&id, &key, &[], &[], &[], &m));
                    continue;
                }
            };
            let bs = inst.bs();
            if i == 0 {
                rep.set(&id, "width_enc", inst.width(true) as i64);
                rep.set(&id, "width_dec", inst.width(false) as i64);
            }
            rep.bump(&id, "keys", 1);
            rep.bump(&id, &format!("keylen:{}", key.len()), 1);
            for j in 0..(if light { 1 } else { 3u64 }) {
                let bc = gen::pick_class(&mut rng, i + j);
                let x = gen::gen(&mut rng, bs, bc);
                note_classes(&mut rep, kc, bc);
                let random = gen::class_is_random(kc) || (gen::class_is_random(bc) && bs >= 8);
                cmp_case(&mut rep, e, &id, &inst, r.as_ref(), &key, &x, random, 10);
                if i == 0 && j == 0 {
                    let mut c = x.clone();
                    r.encrypt(&mut c);
                    rep.sample(J::obj(vec![("type", J::s(&id)), ("key", J::s(gen::hex(&key))), ("block", J::s(gen::hex(&x))), ("reference_ct", J::s(gen::hex(&c)))]));
                }
            }
            // a batch (exercises the parallel backend with this key) vs the reference
            let w = inst.width(true).max(inst.width(false));
            let n = if light { w + 1 } else { 1 + rng.below(2 * w + 2) };
            let data = gen::gen(&mut rng, n * bs, 0);
            for encrypt in [true, false] {
                let bshape = BATCH_SHAPES[((i + encrypt as u64) % 6) as usize];
                let got = run_shape(&inst, encrypt, bshape, &data);
                let mut want = data.clone();
                for b in want.chunks_exact_mut(bs) {
                    if encrypt {
                        r.encrypt(b)
                    } else {
                        r.decrypt(b)
                    }
                }
                rep.case(case_hash(&id, &key, &data, 20 + encrypt as u64), true);
                if got != want {
                    rep.violation(
                        format!("kat|{}|{} batch!=reference|keylen={}", id, if encrypt { "encrypt" } else { "decrypt" }, key.len()),
                        detail(&id, &key, &data, &want, &got, "batch vs reference model"),
                    );
                }
            }
            if have_ossl && i % 2 == 0 {
                evp_check(&mut rep, e, &id, &inst, &key, &data);
            }
            if have_gcry && i % 2 == 1 {
                gcry_check(&mut rep, e, &id, &inst, &key, &data);
            }
        }
        if no_ref > 0 {
            rep.inconclusive.push(format!("no reference model answer for {} ({} keys)", id, no_ref));
        }
        if extras {
            walking_bits(ctx, &mut rep, e, &id);
        }
        rep.bump(&id, &format!("route:{}", e.route), 1);
    }
    if extras {
        rc2_grid(ctx, &mut rep);
        relations(ctx, &mut rep);
    }
    rep
}

/// Every single key bit and every single block bit (set in zeros, cleared in ones): each bit
/// position of the hand-derived permutations / schedules gets a private witness.
fn walking_bits(ctx: &Ctx, rep: &mut Report, e: &Entry, id: &str) {
    if e.route != "new" || e.key_lens.is_empty() {
        return;
    }
    // one key length per shard round-robin keeps this cheap for many-length types
    let lens: Vec<usize> = e.key_lens.iter().cloned().filter(|l| (*l as u64 + ctx.shard) % ctx.nshards.min(e.key_lens.len() as u64).max(1) == 0 || e.key_lens.len() <= 3).collect();
    let light = cfg!(miri) || ctx.light();
    let stride = if light { 61 } else { 1 };
    let slow = e.family == "kuznyechik";
    // interpreter slices: one key length (moving with the seed), sparse bit positions
    let lens: Vec<usize> = if light { vec![e.key_lens[(ctx.seed as usize + ctx.shard as usize) % e.key_lens.len()]] } else { lens };
    for kl in lens {
        if kl == 0 {
            continue;
        }
        let probe = match (e.make)(&vec![0x5au8; kl]) {
            Made::Ok(x) => x,
            _ => continue,
        };
        let bs = probe.bs();
        let zero_block = vec![0u8; bs];
        let mut bit = 0;
        while bit < kl * 8 {
            for base in (if light { vec![0x00u8] } else { vec![0x00u8, 0xFF] }) {
                let mut key = vec![base; kl];
                key[bit / 8] ^= 0x80 >> (bit % 8);
                if let (Some(r), Made::Ok(inst)) = ((e.reference)(&key), (e.make)(&key)) {
                    cmp_case(rep, e, id, &inst, r.as_ref(), &key, &zero_block, false, 30);
                }
            }
            bit += if slow { stride * 3 } else { stride };
        }
        let key: Vec<u8> = (0..kl).map(|i| (i as u8).wrapping_mul(0x1d).wrapping_add(0x33)).collect();
        if light {
            continue;
        }
        if let (Some(r), Made::Ok(inst)) = ((e.reference)(&key), (e.make)(&key)) {
            let mut bit = 0;
            while bit < bs * 8 {
                for base in [0x00u8, 0xFF] {
                    let mut x = vec![base; bs];
                    x[bit / 8] ^= 0x80 >> (bit % 8);
                    cmp_case(rep, e, id, &inst, r.as_ref(), &key, &x, false, 32);
                }
                bit += if light { 17 } else { 1 };
            }
        }
        rep.bump(id, "walking_bit_sweeps", 1);
    }
}

/// RC2: (key length, effective bits) grid against the RFC 2268 model and libcrypto.
fn rc2_grid(ctx: &Ctx, rep: &mut Report) {
    if ctx.prop.as_deref().map(|p| p != "C09").unwrap_or(false) || !ctx.wants_name("rc2::Rc2#grid") {
        return;
    }
    let id = "rc2::Rc2#new_with_eff_key_len";
    let mut rng = ctx.rng("kat:rc2grid");
    let have_ossl = ossl::available();
    let exhaustive = ctx.tier == Tier::Thorough && ctx.scale >= 1.0;
    let mut pairs: Vec<(usize, usize)> = Vec::new();
    if exhaustive {
        for len in 1..=128usize {
            for bits in 1..=1024usize {
                if ((len * 1024 + bits) as u64) % ctx.nshards == ctx.shard {
                    pairs.push((len, bits));
                }
            }
        }
    } else {
        for _ in 0..ctx.budget(2000, 2000, 20) {
            pairs.push((1 + rng.below(128), 1 + rng.below(1024)));
        }
        // boundaries of T8/TM
        for len in [1usize, 2, 8, 16, 127, 128] {
            for bits in [1usize, 2, 7, 8, 9, 15, 16, 17, 63, 64, 65, 1016, 1017, 1023, 1024] {
                pairs.push((len, bits));
            }
        }
    }
    let mut n = 0i64;
    for (len, bits) in pairs {
        let cls = if n % 3 == 0 { gen::pick_class(&mut rng, 1) } else { 0 };
        let key = gen::gen(&mut rng, len, cls);
        let x = gen::gen(&mut rng, 8, 0);
        let r = match refmodels_rc2(&key, bits) {
            Some(r) => r,
            None => {
                rep.inconclusive.push("no RC2 reference model".into());
                return;
            }
        };
        let inst = Inst::combined(rc2::Rc2::new_with_eff_key_len(&key, bits));
        let mut got = x.clone();
        inst.enc1(&mut got);
        let mut want = x.clone();
        r.encrypt(&mut want);
        let mut kk = (bits as u16).to_le_bytes().to_vec();
        kk.extend(&key);
        rep.case(case_hash(id, &kk, &x, 40), true);
        if got != want {
            rep.violation(format!("kat|{}|encrypt!=reference|len={},bits={}", id, len, bits), detail(id, &kk, &x, &want, &got, "rc2 grid"));
        }
        let mut got = x.clone();
        inst.dec1(&mut got);
        let mut want = x.clone();
        r.decrypt(&mut want);
        rep.case(case_hash(id, &kk, &x, 41), true);
        if got != want {
            rep.violation(format!("kat|{}|decrypt!=reference|len={},bits={}", id, len, bits), detail(id, &kk, &x, &want, &got, "rc2 grid"));
        }
        if have_ossl && (n % 4 == 0 || !exhaustive) {
            if let Some(w) = ossl::rc2_ecb(&key, bits as u32, true, &x) {
                let mut got = x.clone();
                inst.enc1(&mut got);
                rep.eval_only(1);
                rep.count("libcrypto_comparisons", 1);
                if got != w {
                    rep.violation(format!("kat|{}|encrypt!=libcrypto|len={},bits={}", id, len, bits), detail(id, &kk, &x, &w, &got, "rc2 vs libcrypto"));
                }
            }
        }
        n += 1;
    }
    rep.set(id, "grid_pairs", n);
    rep.set(id, "grid_exhaustive_share", exhaustive as i64);
}

fn refmodels_rc2(key: &[u8], bits: usize) -> Option<Box<dyn RefCipher>> {
    let mut kk = (bits as u16).to_le_bytes().to_vec();
    kk.extend(key);
    crate::refs::rc2_eff(&kk)
}

/// Metamorphic relations that need no model (C05, C09, C10).
fn relations(ctx: &Ctx, rep: &mut Report) {
    let n = ctx.budget(3000, 40_000, 2);
    let want = |p: &str, name: &str| ctx.prop.as_deref().map(|x| x == p).unwrap_or(true) && ctx.wants_name(name);
    if want("C05", "des::relations") {
        let mut rng = ctx.rng("kat:desrel");
        use cipher::KeyInit;
        let mk = |k: &[u8]| Inst::combined(des::Des::new_from_slice(k).unwrap());
        for i in 0..n {
            let kc = gen::pick_class(&mut rng, i);
            let k1 = gen::gen(&mut rng, 8, kc);
            let k2 = gen::gen(&mut rng, 8, 0);
            let k3 = gen::gen(&mut rng, 8, 0);
            let xc = gen::pick_class(&mut rng, i + 1);
            let x = gen::gen(&mut rng, 8, xc);
            let d = mk(&k1);
            let mut c = x.clone();
            d.enc1(&mut c);
            // complementation
            let nk: Vec<u8> = k1.iter().map(|b| !b).collect();
            let nx: Vec<u8> = x.iter().map(|b| !b).collect();
            let mut c2 = nx.clone();
            mk(&nk).enc1(&mut c2);
            let nc: Vec<u8> = c.iter().map(|b| !b).collect();
            rep.case(case_hash("des::relations", &k1, &x, 50), true);
            if c2 != nc {
                rep.violation("kat|des::Des|complementation E(~k,~p)!=~E(k,p)".into(), detail("des::Des", &k1, &x, &nc, &c2, "complementation"));
            }
            // parity insensitivity
            let pm = rng.next() as u8;
            let kp: Vec<u8> = k1.iter().enumerate().map(|(j, b)| b ^ ((pm >> j) & 1)).collect();
            let mut c3 = x.clone();
            mk(&kp).enc1(&mut c3);
            rep.case(case_hash("des::relations", &k1, &x, 51), true);
            if c3 != c {
                rep.violation("kat|des::Des|parity bits change the result".into(), detail("des::Des", &kp, &x, &c, &c3, "parity"));
            }
            // EDE3(k,k,k) == DES(k), EDE2(k,k) == DES(k)
            let kkk = [k1.clone(), k1.clone(), k1.clone()].concat();
            let mut c4 = x.clone();
            Inst::combined(des::TdesEde3::new_from_slice(&kkk).unwrap()).enc1(&mut c4);
            let mut c5 = x.clone();
            Inst::combined(des::TdesEde2::new_from_slice(&kkk[..16]).unwrap()).enc1(&mut c5);
            rep.case(case_hash("des::relations", &k1, &x, 52), true);
            if c4 != c || c5 != c {
                rep.violation("kat|des::TdesEde3|EDE with equal parts != single DES".into(), detail("des::TdesEde3", &kkk, &x, &c, &c4, "degenerate EDE"));
            }
            // two-key == three-key with first part repeated (both directions)
            let k12 = [k1.clone(), k2.clone()].concat();
            let k121 = [k1.clone(), k2.clone(), k1.clone()].concat();
            for encrypt in [true, false] {
                let mut a = x.clone();
                Inst::combined(des::TdesEde2::new_from_slice(&k12).unwrap()).run(encrypt, Shape::Block, None, &mut a);
                let mut b = x.clone();
                Inst::combined(des::TdesEde3::new_from_slice(&k121).unwrap()).run(encrypt, Shape::Block, None, &mut b);
                rep.case(case_hash("des::relations", &k12, &x, 53 + encrypt as u64), true);
                if a != b {
                    rep.violation("kat|des::TdesEde2|EDE2(k1,k2)!=EDE3(k1,k2,k1)".into(), detail("des::TdesEde2", &k12, &x, &b, &a, "two-key vs three-key"));
                }
                let mut a = x.clone();
                Inst::combined(des::TdesEee2::new_from_slice(&k12).unwrap()).run(encrypt, Shape::Block, None, &mut a);
                let mut b = x.clone();
                Inst::combined(des::TdesEee3::new_from_slice(&k121).unwrap()).run(encrypt, Shape::Block, None, &mut b);
                rep.case(case_hash("des::relations", &k12, &x, 55 + encrypt as u64), true);
                if a != b {
                    rep.violation("kat|des::TdesEee2|EEE2(k1,k2)!=EEE3(k1,k2,k1)".into(), detail("des::TdesEee2", &k12, &x, &b, &a, "two-key vs three-key"));
                }
            }
            // composition from single DES in key order (EDE3 and EEE3)
            let k123 = [k1.clone(), k2.clone(), k3.clone()].concat();
            let (d1, d2, d3) = (mk(&k1), mk(&k2), mk(&k3));
            let mut e1 = x.clone();
            d1.enc1(&mut e1);
            let mut ede = e1.clone();
            d2.dec1(&mut ede);
            d3.enc1(&mut ede);
            let mut eee = e1.clone();
            d2.enc1(&mut eee);
            d3.enc1(&mut eee);
            let mut a = x.clone();
            Inst::combined(des::TdesEde3::new_from_slice(&k123).unwrap()).enc1(&mut a);
            let mut b = x.clone();
            Inst::combined(des::TdesEee3::new_from_slice(&k123).unwrap()).enc1(&mut b);
            rep.case(case_hash("des::relations", &k123, &x, 57), true);
            if a != ede {
                rep.violation("kat|des::TdesEde3|!=E_k3(D_k2(E_k1(p))) composed from Des".into(), detail("des::TdesEde3", &k123, &x, &ede, &a, "composition"));
            }
            if b != eee {
                rep.violation("kat|des::TdesEee3|!=E_k3(E_k2(E_k1(p))) composed from Des".into(), detail("des::TdesEee3", &k123, &x, &eee, &b, "composition"));
            }
        }
        rep.set("des::relations", "cases", n as i64);
    }
    if want("C07", "magma::bundled-tables") {
        // the bundled S-box sets must be the published ones (frozen copies; TC26 also vs the model's
        // transcription from GOST R 34.12-2015)
        if crate::bundled_sboxes::TC26 != refmodels::gost89::TC26 {
            rep.inconclusive.push("frozen Tc26 table disagrees with the reference model's transcription".into());
        }
        for (alias, published, sname, table) in crate::registry::bundled_tables() {
            rep.case(case_hash(alias, sname.as_bytes(), &[], 70), false);
            match crate::bundled_sboxes::frozen(published) {
                Some(f) if *f == table => {}
                Some(f) => {
                    let (r, c) = (0..8).flat_map(|r| (0..16).map(move |c| (r, c))).find(|(r, c)| f[*r][*c] != table[*r][*c]).unwrap_or((0, 0));
                    rep.violation(
                        format!("kat|{}|bundled S-box set differs from the published {} table", alias, published),
                        J::obj(vec![("type", J::s(alias)), ("resolves_to", J::s(sname)), ("row", J::I(r as i64)), ("column", J::I(c as i64)), ("published", J::I(f[r][c] as i64)), ("crate", J::I(table[r][c] as i64))]),
                    );
                }
                None => rep.inconclusive.push(format!("no frozen table for bundled set {}", published)),
            }
        }
    }
    if want("C09", "blowfish::relations") {
        use cipher::KeyInit;
        let mut rng = ctx.rng("kat:bfrel");
        for i in 0..(n / 10).max(2) {
            let len = 4 + rng.below(53);
            let kcl = gen::pick_class(&mut rng, i);
            let key = gen::gen(&mut rng, len, kcl);
            let x = gen::gen(&mut rng, 8, 0);
            let be = Inst::combined(<blowfish::Blowfish>::new_from_slice(&key).unwrap());
            let le = Inst::combined(blowfish::BlowfishLE::new_from_slice(&key).unwrap());
            // LE(x) == swap(BE(swap(x))) where swap byte-reverses each 32-bit half
            let sw = |v: &[u8]| -> Vec<u8> { vec![v[3], v[2], v[1], v[0], v[7], v[6], v[5], v[4]] };
            for encrypt in [true, false] {
                let mut a = x.clone();
                le.run(encrypt, Shape::Block, None, &mut a);
                let mut b = sw(&x);
                be.run(encrypt, Shape::Block, None, &mut b);
                let b = sw(&b);
                rep.case(case_hash("blowfish::relations", &key, &x, 60 + encrypt as u64), true);
                if a != b {
                    rep.violation("kat|blowfish::BlowfishLE|!= byte-swapped Blowfish".into(), detail("blowfish::BlowfishLE", &key, &x, &b, &a, "LE vs BE"));
                }
            }
        }
    }
}
