//! C14: bcrypt (eksblowfish) key-setup primitives follow Provos-Mazieres: random histories
//! of init/expand/salted-expand/encrypt compared step by step with the reference model, the
//! stated equalities, and whole bcrypt computations against libxcrypt's `crypt()`.
use super::*;

#[cfg(feature = "bcrypt")]
pub fn run(ctx: &Ctx) -> Report {
    use blowfish::Blowfish;
    use cipher::KeyInit;
    use refmodels::blowfish as M;
    let mut rep = Report::new("bcrypt");
    let id = "blowfish::Blowfish(bcrypt)";
    let mut rng = ctx.rng("bcrypt");
    let nhist = ctx.budget(800, 8000, 2);
    let light = cfg!(miri) || ctx.light();
    let probes: Vec<[u32; 2]> = (0..(if light { 4 } else { 32 })).map(|i| [0x01234567u32.wrapping_mul(i * 2 + 1), 0x89abcdefu32.rotate_left(i) ^ i]).collect();
    let fingerprint_real = |s: &Blowfish| -> Vec<[u32; 2]> { probes.iter().map(|p| s.bc_encrypt(*p)).collect() };
    let fingerprint_model = |s: &M::Blowfish| -> Vec<[u32; 2]> { probes.iter().map(|p| s.encrypt_words(*p)).collect() };
    let lens = |rng: &mut crate::rng::Rng| -> usize {
        match rng.below(6) {
            0 => [1usize, 2, 3, 4, 5, 7, 16, 17, 55, 56, 57, 71, 72, 73, 100][rng.below(15)],
            _ => 1 + rng.below(100),
        }
    };
    for h in 0..nhist {
        let mut real = Blowfish::bc_init_state();
        let mut model = M::Blowfish::init_state();
        let steps = if light { 2 + rng.below(3) } else if h % 8 == 0 { 40 + rng.below(26) } else { 2 + rng.below(8) };
        let mut trace: Vec<String> = Vec::new();
        for st in 0..steps {
            let op = if light && h == 0 && st == 0 { 5 } else { rng.below(10) };
            let what;
            if op < 4 {
                let kl = lens(&mut rng);
                let kc = gen::pick_class(&mut rng, h + st as u64);
                let key = gen::gen(&mut rng, kl, kc);
                real.bc_expand_key(&key);
                model.expand_key(&key);
                what = format!("bc_expand_key(len {})", kl);
                trace.push(format!("E:{}", gen::hex(&key)));
            } else if op < 8 {
                let (sl, mut kl) = (lens(&mut rng), lens(&mut rng));
                if light && h == 0 && st == 0 {
                    // interpreter slice: a key that covers the whole P-array without wrapping, every run
                    kl = 72 + (ctx.seed as usize % 3);
                }
                let kc = gen::pick_class(&mut rng, h + st as u64);
                let salt = gen::gen(&mut rng, sl, 0);
                let key = gen::gen(&mut rng, kl, kc);
                real.salted_expand_key(&salt, &key);
                model.salted_expand_key(&salt, &key);
                what = format!("salted_expand_key(salt len {}, key len {})", sl, kl);
                trace.push(format!("S:{}:{}", gen::hex(&salt), gen::hex(&key)));
            } else if op < 9 {
                let lr = [rng.next() as u32, rng.next() as u32];
                let (a, b) = (real.bc_encrypt(lr), model.encrypt_words(lr));
                what = "bc_encrypt".to_string();
                trace.push(format!("X:{:08x}{:08x}", lr[0], lr[1]));
                if a != b {
                    rep.violation(format!("bcrypt|{}|bc_encrypt != Blowfish permutation of the current state", id), J::obj(vec![("history", J::A(trace.iter().map(J::s).collect()))]));
                }
            } else {
                real = Blowfish::bc_init_state();
                model = M::Blowfish::init_state();
                what = "bc_init_state".to_string();
                trace.push("I".into());
            }
            let (fr, fm) = (fingerprint_real(&real), fingerprint_model(&model));
            rep.case(case_hash(id, trace.last().unwrap().as_bytes(), &(h.to_le_bytes()), st as u64), true);
            rep.count(&format!("step:{}", what.split('(').next().unwrap_or("")), 1);
            if fr != fm {
                rep.violation(
                    format!("bcrypt|{}|state after {} differs from the reference", id, what.split('(').next().unwrap_or("")),
                    J::obj(vec![("type", J::s(id)), ("step", J::I(st as i64)), ("what", J::s(&what)), ("history", J::A(trace.iter().map(J::s).collect()))]),
                );
                break;
            }
        }
        if h == 0 {
            rep.sample(J::obj(vec![("history", J::A(trace.iter().take(6).map(J::s).collect())), ("steps", J::I(steps as i64))]));
        }
        rep.bump(id, "histories", 1);
        rep.bump(id, "steps", steps as i64);
    }
    // relations: plain expansion == salted with an all-zero salt of any length == ordinary keying
    for i in 0..(if light { 1 } else { ctx.budget(1000, 10000, 4) }) {
        let kl = 4 + rng.below(53);
        let kc = gen::pick_class(&mut rng, i);
        let key = gen::gen(&mut rng, kl, kc);
        let mut a = Blowfish::bc_init_state();
        a.bc_expand_key(&key);
        let mut b = Blowfish::bc_init_state();
        let zl = 1 + rng.below(40);
        b.salted_expand_key(&vec![0u8; zl], &key);
        let c: Blowfish = Blowfish::new_from_slice(&key).unwrap();
        let fc: Vec<[u32; 2]> = probes
            .iter()
            .map(|p| {
                use cipher::BlockCipherEncrypt;
                let mut blk = [0u8; 8];
                blk[..4].copy_from_slice(&p[0].to_be_bytes());
                blk[4..].copy_from_slice(&p[1].to_be_bytes());
                let mut ab = cipher::Block::<Blowfish>::from(blk);
                c.encrypt_block(&mut ab);
                [u32::from_be_bytes(ab[..4].try_into().unwrap()), u32::from_be_bytes(ab[4..].try_into().unwrap())]
            })
            .collect();
        rep.case(case_hash(id, &key, &[zl as u8], 900), true);
        if fingerprint_real(&a) != fingerprint_real(&b) {
            rep.violation(format!("bcrypt|{}|bc_expand_key != salted_expand_key with an all-zero salt", id), detail(id, &key, &[zl as u8], &[], &[], "zero salt"));
        }
        if fingerprint_real(&a) != fc {
            rep.violation(format!("bcrypt|{}|bc_init_state+bc_expand_key != ordinary Blowfish keying", id), detail(id, &key, &[], &[], &[], "vs new_from_slice"));
        }
    }
    // end to end: bcrypt assembled from the crate's primitives vs libxcrypt
    let ncrypt = if light { 0 } else { ctx.budget(40, 600, 1) };
    let mut foreign = 0;
    for i in 0..ncrypt {
        let cost = 4 + rng.below(if ctx.tier == Tier::Quick { 2 } else { 4 }) as u32;
        let mut salt = [0u8; 16];
        rng.fill(&mut salt);
        let plen = [0usize, 1, 8, 55, 56, 71, 72][rng.below(7)].max(rng.below(73));
        let mut pw = gen::gen(&mut rng, plen, if i % 3 == 0 { 8 } else { 0 });
        pw.iter_mut().for_each(|b| {
            if *b == 0 {
                *b = 0x41
            }
        });
        // $2b$: key = password || NUL, truncated to 72 bytes
        let mut key = pw.clone();
        key.push(0);
        key.truncate(72);
        let mut st = Blowfish::bc_init_state();
        st.salted_expand_key(&salt, &key);
        for _ in 0..(1u32 << cost) {
            st.bc_expand_key(&key);
            st.bc_expand_key(&salt);
        }
        let mut ctext = [0x4f727068u32, 0x65616e42, 0x65686f6c, 0x64657253, 0x63727944, 0x6f756274];
        for _ in 0..64 {
            for j in 0..3 {
                let r = st.bc_encrypt([ctext[2 * j], ctext[2 * j + 1]]);
                ctext[2 * j] = r[0];
                ctext[2 * j + 1] = r[1];
            }
        }
        let mut raw = Vec::new();
        for w in ctext {
            raw.extend(w.to_be_bytes());
        }
        let model_raw = M::bcrypt_raw(cost, &salt, &key);
        rep.case(case_hash(id, &pw, &salt, 1000 + cost as u64), true);
        if raw[..] != model_raw[..] {
            rep.violation(format!("bcrypt|{}|bcrypt computed with the crate's primitives != reference eksblowfish", id), detail(id, &pw, &salt, &model_raw, &raw, &format!("cost {}", cost)));
        }
        let mine = format!("$2b${:02}${}{}", cost, M::bcrypt_b64_encode(&salt), M::bcrypt_b64_encode(&raw[..23]));
        let setting = &mine[..29];
        if let Some(theirs) = ossl::crypt_hash(&pw, setting) {
            foreign += 1;
            rep.eval_only(1);
            if theirs != mine {
                rep.violation(
                    format!("bcrypt|{}|bcrypt computed with the crate's primitives != libxcrypt crypt()", id),
                    J::obj(vec![("password", J::s(gen::hex(&pw))), ("setting", J::s(setting)), ("crate", J::s(&mine)), ("libxcrypt", J::s(&theirs))]),
                );
            }
        }
    }
    rep.set(id, "end_to_end_bcrypt", ncrypt as i64);
    rep.set(id, "libxcrypt_comparisons", foreign);
    rep
}

#[cfg(not(feature = "bcrypt"))]
pub fn run(_ctx: &Ctx) -> Report {
    let mut rep = Report::new("bcrypt");
    rep.inconclusive.push("driver built without the bcrypt feature".into());
    rep
}
