//! C16: after drop, every byte of the instance's own storage that depended on the key reads
//! as zero. Observed on a heap slot holding the value; positions whose content depends on
//! ambient memory (padding, unwritten union bytes) are identified by constructing the same key
//! twice under different ambient fill patterns and excluded.
use super::*;
use cipher::consts::*;
use cipher::KeyInit;
use std::mem::{size_of, MaybeUninit};
use std::ptr;

pub struct Obs {
    /// [key index][ambient index] -> (bytes before drop, bytes after drop)
    pub runs: Vec<[(Vec<u8>, Vec<u8>); 2]>,
    pub size: usize,
    /// live[p]: flipping the low bit of byte p changed the behaviour of the instance
    /// (an encrypt/decrypt fingerprint) for at least one probed key. Bytes that are not live
    /// are padding, the inactive arm of a union, or otherwise storage the value never uses.
    pub live: Vec<bool>,
}

pub struct Target {
    pub name: String,
    pub route: &'static str,
    pub key_lens: Vec<usize>,
    pub probe: fn(&[Vec<u8>]) -> Option<Obs>,
}

#[inline(never)]
fn scrub_stack(v: u8) {
    let mut a = [0u8; 96 * 1024];
    for x in a.iter_mut() {
        unsafe { ptr::write_volatile(x, v) };
    }
    std::hint::black_box(&a);
}

#[inline(never)]
fn build_into<T>(slot: *mut T, key: &[u8], ctor: fn(&[u8]) -> Option<T>) -> bool {
    match ctor(key) {
        Some(v) => {
            unsafe { slot.write(v) };
            true
        }
        None => false,
    }
}

fn snapshot(p: *const u8, n: usize) -> Vec<u8> {
    (0..n).map(|i| unsafe { ptr::read_volatile(p.add(i)) }).collect()
}

fn fp_blocks(n: usize) -> usize {
    // big key-dependent tables (Blowfish S-boxes) need many probe blocks to touch every entry
    if n > 2000 {
        320
    } else {
        6
    }
}
fn fp_data(bs: usize, m: usize) -> Vec<u8> {
    let mut r = crate::rng::Rng::new(0x5eed, "zeroize-fingerprint", 0);
    r.bytes(bs * m)
}
fn fp_both<T: cipher::BlockCipherEncrypt + cipher::BlockCipherDecrypt>(t: &T) -> Vec<u8> {
    let mut v = fp_enc(t);
    v.extend(fp_dec(t));
    v
}
fn fp_enc<T: cipher::BlockCipherEncrypt>(t: &T) -> Vec<u8> {
    use cipher::typenum::Unsigned;
    let bs = T::BlockSize::USIZE;
    let mut d = fp_data(bs, fp_blocks(size_of::<T>()));
    let (b, _) = cipher::array::Array::<u8, T::BlockSize>::slice_as_chunks_mut(&mut d);
    t.encrypt_blocks(b);
    d
}
fn fp_dec<T: cipher::BlockCipherDecrypt>(t: &T) -> Vec<u8> {
    use cipher::typenum::Unsigned;
    let bs = T::BlockSize::USIZE;
    let mut d = fp_data(bs, fp_blocks(size_of::<T>()));
    let (b, _) = cipher::array::Array::<u8, T::BlockSize>::slice_as_chunks_mut(&mut d);
    t.decrypt_blocks(b);
    d
}

fn probe<T>(keys: &[Vec<u8>], ctor: fn(&[u8]) -> Option<T>, fp: fn(&T) -> Vec<u8>) -> Option<Obs> {
    let n = size_of::<T>();
    let mut runs = Vec::new();
    let mut live = vec![false; n];
    // liveness on a few keys (the first is all-zero, so use the last ones: random)
    for key in keys.iter().rev().take(2) {
        let mut slot: Box<MaybeUninit<T>> = Box::new(MaybeUninit::uninit());
        unsafe { ptr::write_bytes(slot.as_mut_ptr() as *mut u8, 0, n) };
        if !build_into(slot.as_mut_ptr(), key, ctor) {
            return None;
        }
        let base = fp(unsafe { &*slot.as_ptr() });
        let bytes = slot.as_mut_ptr() as *mut u8;
        for p in 0..n {
            unsafe { *bytes.add(p) ^= 1 };
            let r = std::panic::catch_unwind(std::panic::AssertUnwindSafe(|| fp(unsafe { &*slot.as_ptr() })));
            unsafe { *bytes.add(p) ^= 1 };
            match r {
                Ok(v) if v == base => {}
                _ => live[p] = true,
            }
        }
        unsafe { ptr::drop_in_place(slot.as_mut_ptr()) };
    }
    for key in keys {
        let mut pair: [(Vec<u8>, Vec<u8>); 2] = Default::default();
        for (ai, ambient) in [0x00u8, 0xA5].into_iter().enumerate() {
            // a fresh copy of the key at a different address per run: pointer-valued garbage differs
            let kcopy: Vec<u8> = key.clone();
            let _spacer = vec![ambient; 64 + ai * 4096];
            // the instance lives inside a 64-aligned arena: the first run at a 64-aligned address,
            // the second at the least aligned address the type permits (an instance embedded after
            // a one-byte field, say), so erasure code that assumes more alignment than the type
            // guarantees is exposed
            let al = std::mem::align_of::<T>().max(1);
            let mut arena: Vec<u128> = vec![0u128; (n + 256) / 16 + 8];
            let base = arena.as_mut_ptr() as *mut u8;
            let base64 = unsafe { base.add(base.align_offset(64)) };
            let off = if ai == 0 { 0 } else { al % 64 };
            let slot = unsafe { base64.add(off) } as *mut T;
            unsafe { ptr::write_bytes(slot as *mut u8, ambient, n) };
            scrub_stack(ambient);
            if !build_into(slot, &kcopy, ctor) {
                return None;
            }
            let before = snapshot(slot as *const u8, n);
            unsafe { ptr::drop_in_place(slot) };
            let after = snapshot(slot as *const u8, n);
            pair[ai] = (before, after);
        }
        runs.push(pair);
    }
    Some(Obs { runs, size: n, live })
}

fn c_new<T: KeyInit>(k: &[u8]) -> Option<T> {
    T::new_from_slice(k).ok()
}
fn c_clone<T: KeyInit + Clone>(k: &[u8]) -> Option<T> {
    let a = T::new_from_slice(k).ok()?;
    let b = a.clone();
    drop(a);
    Some(b)
}
fn c_from_ref<E: KeyInit, T: for<'a> From<&'a E>>(k: &[u8]) -> Option<T> {
    let e = E::new_from_slice(k).ok()?;
    Some(T::from(&e))
}
fn c_from_val<E: KeyInit, T: From<E>>(k: &[u8]) -> Option<T> {
    let e = E::new_from_slice(k).ok()?;
    Some(T::from(e))
}
fn c_from_val_clone<E: KeyInit, T: From<E> + Clone>(k: &[u8]) -> Option<T> {
    let e = E::new_from_slice(k).ok()?;
    let t = T::from(e);
    Some(t.clone())
}
fn c_used<T: KeyInit + cipher::BlockCipherEncrypt>(k: &[u8]) -> Option<T> {
    let t = T::new_from_slice(k).ok()?;
    let mut b = cipher::Block::<T>::default();
    for _ in 0..3 {
        t.encrypt_block(&mut b);
    }
    let mut bs = vec![b.clone(); 11];
    t.encrypt_blocks(&mut bs);
    std::hint::black_box(&bs);
    Some(t)
}

macro_rules! zt {
    ($v:ident, $t:ty, $name:expr, $lens:expr) => {
        zt!($v, $t, $name, $lens, fp_both::<$t>; routes new clone used);
    };
    ($v:ident, $t:ty, $name:expr, $lens:expr; noclone) => {
        zt!($v, $t, $name, $lens, fp_both::<$t>; routes new used);
    };
    ($v:ident, $t:ty, $name:expr, $lens:expr, $fp:expr; routes $($r:ident)*) => {
        $( zt!(@one $v, $t, $name, $lens, $fp, $r); )*
    };
    (@one $v:ident, $t:ty, $name:expr, $lens:expr, $fp:expr, new) => {
        $v.push(Target { name: $name.to_string(), route: "new", key_lens: $lens, probe: |k| probe::<$t>(k, c_new::<$t>, $fp) });
    };
    (@one $v:ident, $t:ty, $name:expr, $lens:expr, $fp:expr, clone) => {
        $v.push(Target { name: $name.to_string(), route: "clone", key_lens: $lens, probe: |k| probe::<$t>(k, c_clone::<$t>, $fp) });
    };
    (@one $v:ident, $t:ty, $name:expr, $lens:expr, $fp:expr, used) => {
        $v.push(Target { name: $name.to_string(), route: "used", key_lens: $lens, probe: |k| probe::<$t>(k, c_used::<$t>, $fp) });
    };
}
macro_rules! zt_family {
    ($v:ident, $kp:ident, $pfx:expr, $comb:ident, $enc:ident, $dec:ident, $kl:expr) => {
        zt!($v, $kp::$comb, format!("{}::{}", $pfx, stringify!($comb)), vec![$kl]);
        zt!($v, $kp::$enc, format!("{}::{}", $pfx, stringify!($enc)), vec![$kl], fp_enc::<$kp::$enc>; routes new clone used);
        zt!($v, $kp::$dec, format!("{}::{}", $pfx, stringify!($dec)), vec![$kl], fp_dec::<$kp::$dec>; routes new clone);
        $v.push(Target { name: format!("{}::{}", $pfx, stringify!($comb)), route: "from_enc_ref", key_lens: vec![$kl], probe: |k| probe::<$kp::$comb>(k, c_from_ref::<$kp::$enc, $kp::$comb>, fp_both::<$kp::$comb>) });
        $v.push(Target { name: format!("{}::{}", $pfx, stringify!($comb)), route: "from_enc_val", key_lens: vec![$kl], probe: |k| probe::<$kp::$comb>(k, c_from_val::<$kp::$enc, $kp::$comb>, fp_both::<$kp::$comb>) });
        $v.push(Target { name: format!("{}::{}", $pfx, stringify!($comb)), route: "from_enc_val+clone", key_lens: vec![$kl], probe: |k| probe::<$kp::$comb>(k, c_from_val_clone::<$kp::$enc, $kp::$comb>, fp_both::<$kp::$comb>) });
        $v.push(Target { name: format!("{}::{}", $pfx, stringify!($dec)), route: "from_enc_ref", key_lens: vec![$kl], probe: |k| probe::<$kp::$dec>(k, c_from_ref::<$kp::$enc, $kp::$dec>, fp_dec::<$kp::$dec>) });
        $v.push(Target { name: format!("{}::{}", $pfx, stringify!($dec)), route: "from_enc_val", key_lens: vec![$kl], probe: |k| probe::<$kp::$dec>(k, c_from_val::<$kp::$enc, $kp::$dec>, fp_dec::<$kp::$dec>) });
        $v.push(Target { name: format!("{}::{}", $pfx, stringify!($dec)), route: "from_enc_val+clone", key_lens: vec![$kl], probe: |k| probe::<$kp::$dec>(k, c_from_val_clone::<$kp::$enc, $kp::$dec>, fp_dec::<$kp::$dec>) });
    };
}

pub fn targets() -> Vec<Target> {
    let mut v: Vec<Target> = Vec::new();
    zt_family!(v, aes, "aes", Aes128, Aes128Enc, Aes128Dec, 16);
    zt_family!(v, aes, "aes", Aes192, Aes192Enc, Aes192Dec, 24);
    zt_family!(v, aes, "aes", Aes256, Aes256Enc, Aes256Dec, 32);
    zt_family!(v, kuznyechik, "kuznyechik", Kuznyechik, KuznyechikEnc, KuznyechikDec, 32);
    #[cfg(feature = "shadows")]
    {
        zt_family!(v, aes_armv8, "S:aes_armv8", Aes128, Aes128Enc, Aes128Dec, 16);
        zt_family!(v, aes_armv8, "S:aes_armv8", Aes192, Aes192Enc, Aes192Dec, 24);
        zt_family!(v, aes_armv8, "S:aes_armv8", Aes256, Aes256Enc, Aes256Dec, 32);
        zt_family!(v, aes_soft32, "S:aes_soft32", Aes128, Aes128Enc, Aes128Dec, 16);
        zt_family!(v, aes_soft32, "S:aes_soft32", Aes192, Aes192Enc, Aes192Dec, 24);
        zt_family!(v, aes_soft32, "S:aes_soft32", Aes256, Aes256Enc, Aes256Dec, 32);
        zt_family!(v, aes_soft32c, "S:aes_soft32c", Aes128, Aes128Enc, Aes128Dec, 16);
        zt_family!(v, aes_soft32c, "S:aes_soft32c", Aes256, Aes256Enc, Aes256Dec, 32);
        zt_family!(v, kuz_neon, "S:kuz_neon", Kuznyechik, KuznyechikEnc, KuznyechikDec, 32);
    }
    zt!(v, aria::Aria128, "aria::Aria128", vec![16]);
    zt!(v, aria::Aria192, "aria::Aria192", vec![24]);
    zt!(v, aria::Aria256, "aria::Aria256", vec![32]);
    zt!(v, belt_block::BeltBlock, "belt_block::BeltBlock", vec![32]);
    zt!(v, blowfish::Blowfish, "blowfish::Blowfish", (4..=56).collect());
    zt!(v, blowfish::BlowfishLE, "blowfish::BlowfishLE", vec![4, 8, 16, 33, 56]);
    // bcrypt states: keyed only through the bcrypt entry points (never through KeyInit)
    #[cfg(feature = "bcrypt")]
    {
        fn bc_salted(k: &[u8]) -> Option<blowfish::Blowfish> {
            let mut b = blowfish::Blowfish::bc_init_state();
            b.salted_expand_key(&k[..k.len() / 2 + 1], k);
            Some(b)
        }
        fn bc_plain(k: &[u8]) -> Option<blowfish::Blowfish> {
            let mut b = blowfish::Blowfish::bc_init_state();
            b.bc_expand_key(k);
            Some(b)
        }
        fn bc_salted_clone(k: &[u8]) -> Option<blowfish::Blowfish> {
            bc_salted(k).map(|b| b.clone())
        }
        v.push(Target { name: "blowfish::Blowfish".into(), route: "bc_init_state+salted_expand_key", key_lens: vec![8, 21, 72], probe: |k| probe::<blowfish::Blowfish>(k, bc_salted, fp_both::<blowfish::Blowfish>) });
        v.push(Target { name: "blowfish::Blowfish".into(), route: "bc_init_state+salted_expand_key+clone", key_lens: vec![16], probe: |k| probe::<blowfish::Blowfish>(k, bc_salted_clone, fp_both::<blowfish::Blowfish>) });
        v.push(Target { name: "blowfish::Blowfish".into(), route: "bc_init_state+bc_expand_key", key_lens: vec![8, 21, 72], probe: |k| probe::<blowfish::Blowfish>(k, bc_plain, fp_both::<blowfish::Blowfish>) });
    }
    zt!(v, camellia::Camellia128, "camellia::Camellia128", vec![16]);
    zt!(v, camellia::Camellia192, "camellia::Camellia192", vec![24]);
    zt!(v, camellia::Camellia256, "camellia::Camellia256", vec![32]);
    zt!(v, cast5::Cast5, "cast5::Cast5", (5..=16).collect());
    zt!(v, cast6::Cast6, "cast6::Cast6", vec![16, 20, 24, 28, 32]);
    zt!(v, des::Des, "des::Des", vec![8]);
    zt!(v, des::TdesEde3, "des::TdesEde3", vec![24]);
    zt!(v, des::TdesEde2, "des::TdesEde2", vec![16]);
    zt!(v, des::TdesEee3, "des::TdesEee3", vec![24]);
    zt!(v, des::TdesEee2, "des::TdesEee2", vec![16]);
    zt!(v, gift_cipher::Gift128, "gift_cipher::Gift128", vec![16]);
    zt!(v, idea::Idea, "idea::Idea", vec![16]);
    zt!(v, magma::Magma, "magma::Magma", vec![32]);
    zt!(v, magma::Gost89Test, "magma::Gost89Test", vec![32]);
    zt!(v, magma::Gost89CryptoProA, "magma::Gost89CryptoProA", vec![32]);
    zt!(v, magma::Gost89<crate::registry::UserSbox<7>>, "magma::Gost89<UserSbox<7>>", vec![32]);
    zt!(v, rc2::Rc2, "rc2::Rc2", vec![1, 5, 8, 16, 64, 128]);
    zt!(v, rc5::RC5<u8, U12, U4>, "rc5::RC5<u8,U12,U4>", vec![4]);
    zt!(v, rc5::RC5<u16, U16, U8>, "rc5::RC5<u16,U16,U8>", vec![8]);
    zt!(v, rc5::RC5<u32, U12, U16>, "rc5::RC5<u32,U12,U16>", vec![16]);
    zt!(v, rc5::RC5<u32, U20, U5>, "rc5::RC5<u32,U20,U5>", vec![5]);
    zt!(v, rc5::RC5<u64, U24, U24>, "rc5::RC5<u64,U24,U24>", vec![24]);
    zt!(v, rc5::RC5<u128, U28, U32>, "rc5::RC5<u128,U28,U32>", vec![32]);
    zt!(v, serpent::Serpent, "serpent::Serpent", (16..=32).collect());
    zt!(v, sm4::Sm4, "sm4::Sm4", vec![16]);
    zt!(v, speck_cipher::Speck32_64, "speck_cipher::Speck32_64", vec![8]);
    zt!(v, speck_cipher::Speck48_72, "speck_cipher::Speck48_72", vec![9]);
    zt!(v, speck_cipher::Speck48_96, "speck_cipher::Speck48_96", vec![12]);
    zt!(v, speck_cipher::Speck64_96, "speck_cipher::Speck64_96", vec![12]);
    zt!(v, speck_cipher::Speck64_128, "speck_cipher::Speck64_128", vec![16]);
    zt!(v, speck_cipher::Speck96_96, "speck_cipher::Speck96_96", vec![12]);
    zt!(v, speck_cipher::Speck96_144, "speck_cipher::Speck96_144", vec![18]);
    zt!(v, speck_cipher::Speck128_128, "speck_cipher::Speck128_128", vec![16]);
    zt!(v, speck_cipher::Speck128_192, "speck_cipher::Speck128_192", vec![24]);
    zt!(v, speck_cipher::Speck128_256, "speck_cipher::Speck128_256", vec![32]);
    zt!(v, threefish::Threefish256, "threefish::Threefish256", vec![32]);
    zt!(v, threefish::Threefish512, "threefish::Threefish512", vec![64]);
    zt!(v, threefish::Threefish1024, "threefish::Threefish1024", vec![128]);
    zt!(v, twofish::Twofish, "twofish::Twofish", vec![16, 24, 32]);
    zt!(v, xtea::Xtea, "xtea::Xtea", vec![16]; noclone);
    v
}

fn ranges(pos: &[usize]) -> String {
    let mut out = Vec::new();
    let mut i = 0;
    while i < pos.len() {
        let s = pos[i];
        let mut e = s;
        while i + 1 < pos.len() && pos[i + 1] == e + 1 {
            i += 1;
            e = pos[i];
        }
        out.push(if s == e { format!("{}", s) } else { format!("{}..={}", s, e) });
        i += 1;
    }
    out.join(",")
}

pub fn run(ctx: &Ctx) -> Report {
    let mut rep = Report::new("zeroize");
    if !cfg!(feature = "zeroize") {
        rep.inconclusive.push("driver built without the zeroize feature".into());
        return rep;
    }
    let ts = targets();
    let per_len = ctx.budget(6, 40, 3) as usize;
    for (ti, t) in ts.iter().enumerate() {
        let id = format!("{}#{}", t.name, t.route);
        if !ctx.wants_name(&id) || (ti as u64) % ctx.nshards != ctx.shard {
            continue;
        }
        let mut rng = ctx.rng(&format!("zeroize:{}", id));
        let mut keys: Vec<Vec<u8>> = Vec::new();
        for &l in &t.key_lens {
            keys.push(vec![0u8; l]);
            keys.push(vec![0xFFu8; l]);
            let extra = if t.key_lens.len() > 8 { 2 } else { per_len };
            for i in 0..extra {
                let cl = if i % 3 == 2 { gen::pick_class(&mut rng, i as u64 + 1) } else { 0 };
                keys.push(gen::gen(&mut rng, l, cl));
            }
        }
        let obs = match std::panic::catch_unwind(|| (t.probe)(&keys)) {
            Ok(Some(o)) => o,
            Ok(None) => {
                rep.inconclusive.push(format!("{}: constructor rejected an accepted key length", id));
                continue;
            }
            Err(e) => {
                rep.inconclusive.push(format!("{}: probe panicked: {}", id, crate::registry::panic_msg(e)));
                continue;
            }
        };
        let n = obs.size;
        // unstable: differs between the two ambient runs of the same key
        let mut unstable = vec![false; n];
        for r in &obs.runs {
            for p in 0..n {
                if r[0].0[p] != r[1].0[p] {
                    unstable[p] = true;
                }
            }
        }
        // D: stable positions that vary across keys; growth with the number of keys
        let mut varies = vec![false; n];
        let mut growth = Vec::new();
        for (ki, r) in obs.runs.iter().enumerate() {
            for p in 0..n {
                if !unstable[p] && r[0].0[p] != obs.runs[0][0].0[p] {
                    varies[p] = true;
                }
            }
            if ki + 1 == 2 || ki + 1 == 4 || ki + 1 == obs.runs.len() / 2 || ki + 1 == obs.runs.len() {
                growth.push(varies.iter().filter(|x| **x).count() as i64);
            }
        }
        let d_all: Vec<usize> = (0..n).filter(|p| varies[*p]).collect();
        // judged positions: key-dependent AND used by the value (live)
        let d: Vec<usize> = d_all.iter().cloned().filter(|p| obs.live[*p]).collect();
        let dead_keydep = d_all.len() - d.len();
        let mut residue: Vec<usize> = Vec::new();
        for r in &obs.runs {
            for &p in &d {
                if (r[0].1[p] != 0 || r[1].1[p] != 0) && !residue.contains(&p) {
                    residue.push(p);
                }
            }
        }
        residue.sort();
        for (ki, k) in keys.iter().enumerate() {
            rep.case(case_hash(&id, k, &[], 1), ki % 2 == 0 && k.len() >= 8 && k.iter().any(|b| *b != k[0]));
        }
        rep.set(&id, "size_of", n as i64);
        rep.set(&id, "key_dependent_bytes", d.len() as i64);
        rep.set(&id, "live_bytes", obs.live.iter().filter(|x| **x).count() as i64);
        rep.set(&id, "key_dependent_but_unused_bytes", dead_keydep as i64);
        rep.set(&id, "ambient_dependent_bytes", unstable.iter().filter(|x| **x).count() as i64);
        rep.set(&id, "keys", keys.len() as i64);
        rep.set(&id, "residue_bytes", residue.len() as i64);
        if d.is_empty() && n > 0 {
            rep.inconclusive.push(format!("{}: no key-dependent byte was observed in {} bytes (monitor blind)", id, n));
        }
        if !residue.is_empty() {
            rep.violation(
                format!("zeroize|{}|key-dependent bytes survive drop", id),
                J::obj(vec![
                    ("type", J::s(&id)),
                    ("size_of", J::I(n as i64)),
                    ("key_dependent_positions", J::I(d.len() as i64)),
                    ("surviving_positions", J::s(ranges(&residue))),
                    ("example_key", J::s(gen::hex(&keys[keys.len() - 1]))),
                ]),
            );
        }
        if ti % 9 == 0 {
            rep.sample(J::obj(vec![
                ("type", J::s(&id)),
                ("size_of", J::I(n as i64)),
                ("key_dependent_bytes", J::I(d.len() as i64)),
                ("live_bytes", J::I(obs.live.iter().filter(|x| **x).count() as i64)),
                ("key_dependent_but_unused_bytes", J::I(dead_keydep as i64)),
                ("ambient_dependent_bytes", J::I(unstable.iter().filter(|x| **x).count() as i64)),
                ("D_growth_with_keys", J::A(growth.iter().map(|g| J::I(*g)).collect())),
                ("keys", J::I(keys.len() as i64)),
            ]));
        }
    }
    rep
}
