//! C11: `new_from_slice` succeeds exactly on the algorithm's key lengths, errors cleanly
//! otherwise, and equivalent constructors give the same cipher.
use super::*;
use crate::dynciph::Inst;
use crate::registry::{types, SliceOutcome};
use cipher::KeyInit;

fn same_behaviour(a: &Inst, b: &Inst, rng: &mut crate::rng::Rng) -> Option<(Vec<u8>, Vec<u8>, Vec<u8>)> {
    let bs = a.bs();
    for i in 0..8u64 {
        let cl = gen::pick_class(rng, i);
        let x = gen::gen(rng, bs, cl);
        for encrypt in [true, false] {
            let (mut p, mut q) = (x.clone(), x.clone());
            a.run(encrypt, crate::dynciph::Shape::Block, None, &mut p);
            b.run(encrypt, crate::dynciph::Shape::Block, None, &mut q);
            if p != q {
                return Some((x, p, q));
            }
        }
    }
    None
}

pub fn run(ctx: &Ctx) -> Report {
    let mut rep = Report::new("keylen");
    let ts = types();
    let mut lens: Vec<usize> = (0..=300).collect();
    lens.extend([511usize, 512, 1000, 4096, 65536]);
    if ctx.light() {
        lens = (0..=66).collect();
        lens.extend([127usize, 128, 129, 255, 256, 257, 300, 4096]);
    }
    let base_lens = lens.clone();
    let reps = ctx.budget(1, 6, 1);
    for (ti, t) in ts.iter().enumerate() {
        if !ctx.wants_name(&t.name) || (ti as u64) % ctx.nshards != ctx.shard {
            continue;
        }
        let mut rng = ctx.rng(&format!("keylen:{}", t.name));
        let mut accepted = Vec::new();
        // beyond 300: every accepted length shifted by the moduli at which a narrowing cast of the
        // length (bytes, words or bits, to u8 or u16) would wrap around
        let mut lens = base_lens.clone();
        if !ctx.light() {
            let acc: Vec<usize> = (0..=300).filter(|l| (t.accepts)(*l)).collect();
            let picks: Vec<usize> = if acc.len() <= 6 { acc.clone() } else { vec![acc[0], acc[1], acc[acc.len() / 2], acc[acc.len() - 2], acc[acc.len() - 1]] };
            for l in picks {
                for m in [32usize, 64, 256, 512, 1024, 2048, 8192, 16384, 65536, 131072, 262144] {
                    lens.push(l + m);
                }
            }
        }
        // `--equiv-only` (interpreter slices on other targets): constructor equivalences for every
        // type, no length sweep
        let equiv_only = ctx.flags.iter().any(|a| a == "--equiv-only");
        for _ in 0..(if equiv_only { 0 } else { reps }) {
            for &len in &lens {
                let cl = gen::pick_class(&mut rng, len as u64);
                let key = gen::gen(&mut rng, len, cl);
                let expect = (t.accepts)(len);
                rep.case(case_hash(&t.name, &key, &[], len as u64), len >= 8 && gen::class_is_random(cl));
                rep.case(case_hash(&t.name, &[], &[], 100_000 + len as u64), false);
                match (t.from_slice)(&key) {
                    SliceOutcome::Ok => {
                        if !expect {
                            rep.violation(format!("keylen|{}|length {} accepted but is not a key length of the algorithm", t.name, len), detail(&t.name, &key, &[], &[], &[], "accepted"));
                        } else if !accepted.contains(&len) {
                            accepted.push(len);
                        }
                    }
                    SliceOutcome::Err => {
                        if expect {
                            rep.violation(format!("keylen|{}|length {} rejected but is a key length of the algorithm", t.name, len), detail(&t.name, &key, &[], &[], &[], "rejected"));
                        }
                    }
                    SliceOutcome::Panic(m) => {
                        rep.violation(format!("keylen|{}|new_from_slice panicked at length {}", t.name, len), detail(&t.name, &key, &[], &[], &[], &m));
                    }
                }
            }
        }
        rep.set(&t.name, "lengths_tried", lens.len() as i64);
        rep.set(&t.name, "lengths_accepted", accepted.len() as i64);
        // new(&key) vs new_from_slice(&key) for the fixed KeySize
        if (t.accepts)(t.key_size) && t.combined {
            for i in 0..(if ctx.light() { 2 } else { 8u64 }) {
                let cl = gen::pick_class(&mut rng, i);
                let key = gen::gen(&mut rng, t.key_size, cl);
                let a = std::panic::catch_unwind(|| (t.new_fixed)(&key)).ok().flatten();
                let e = crate::registry::entries().into_iter().find(|e| e.name == t.name && e.route == "new");
                if let (Some(a), Some(e)) = (a, e) {
                    if let Some(b) = (e.make)(&key).ok() {
                        rep.case(case_hash(&t.name, &key, &[], 7777), true);
                        if let Some((x, p, q)) = same_behaviour(&a, &b, &mut rng) {
                            rep.violation(format!("keylen|{}|new(&key) and new_from_slice(&key) give different ciphers", t.name), detail(&t.name, &key, &x, &p, &q, "new vs new_from_slice"));
                        }
                    }
                }
            }
        }
    }
    if ctx.shard == 0 {
        equivalences(ctx, &mut rep);
    }
    rep.extra.insert("x_lengths_exhaustive_0_300".into(), J::B(!ctx.light()));
    rep
}

/// Constructor pairs that must give the same cipher.
fn equivalences(ctx: &Ctx, rep: &mut Report) {
    let mut rng = ctx.rng("keylen:equiv");
    let n = ctx.budget(40, 2000, 4);
    for i in 0..n {
        let cl = gen::pick_class(&mut rng, i);
        // Rc2: slice vs explicit effective length 8*len
        if ctx.wants_name("rc2::Rc2") {
            let len = 1 + rng.below(128);
            let key = gen::gen(&mut rng, len, cl);
            let a = Inst::combined(rc2::Rc2::new_from_slice(&key).unwrap());
            let b = Inst::combined(rc2::Rc2::new_with_eff_key_len(&key, 8 * len));
            rep.case(case_hash("rc2::Rc2", &key, &[], 8001), true);
            if let Some((x, p, q)) = same_behaviour(&a, &b, &mut rng) {
                rep.violation("keylen|rc2::Rc2|new_from_slice != new_with_eff_key_len(8*len)".into(), detail("rc2::Rc2", &key, &x, &p, &q, &format!("len {}", len)));
            }
        }
        // CAST5: 11..=15 bytes vs zero-padded 16
        if ctx.wants_name("cast5::Cast5") {
            let len = 11 + rng.below(5);
            let key = gen::gen(&mut rng, len, cl);
            let mut padded = key.clone();
            padded.resize(16, 0);
            let a = Inst::combined(cast5::Cast5::new_from_slice(&key).unwrap());
            let b = Inst::combined(cast5::Cast5::new_from_slice(&padded).unwrap());
            rep.case(case_hash("cast5::Cast5", &key, &[], 8002), true);
            if let Some((x, p, q)) = same_behaviour(&a, &b, &mut rng) {
                rep.violation("keylen|cast5::Cast5|short key (>80 bits) != zero-padded 128-bit key".into(), detail("cast5::Cast5", &key, &x, &p, &q, &format!("len {}", len)));
            }
        }
        // CAST6: 16/20/24/28 vs zero-padded 32
        if ctx.wants_name("cast6::Cast6") {
            let len = [16usize, 20, 24, 28][rng.below(4)];
            let key = gen::gen(&mut rng, len, cl);
            let mut padded = key.clone();
            padded.resize(32, 0);
            let a = Inst::combined(cast6::Cast6::new_from_slice(&key).unwrap());
            let b = Inst::combined(cast6::Cast6::new_from_slice(&padded).unwrap());
            rep.case(case_hash("cast6::Cast6", &key, &[], 8003), true);
            if let Some((x, p, q)) = same_behaviour(&a, &b, &mut rng) {
                rep.violation("keylen|cast6::Cast6|short key != zero-padded 256-bit key".into(), detail("cast6::Cast6", &key, &x, &p, &q, &format!("len {}", len)));
            }
        }
        // Serpent: 16..=31 vs key || 01 || 00..
        if ctx.wants_name("serpent::Serpent") {
            let len = 16 + rng.below(16);
            let key = gen::gen(&mut rng, len, cl);
            let mut padded = key.clone();
            padded.push(0x01);
            padded.resize(32, 0);
            let a = Inst::combined(serpent::Serpent::new_from_slice(&key).unwrap());
            let b = Inst::combined(serpent::Serpent::new_from_slice(&padded).unwrap());
            rep.case(case_hash("serpent::Serpent", &key, &[], 8004), true);
            if let Some((x, p, q)) = same_behaviour(&a, &b, &mut rng) {
                rep.violation("keylen|serpent::Serpent|short key != key||01||00.. padded to 256 bits".into(), detail("serpent::Serpent", &key, &x, &p, &q, &format!("len {}", len)));
            }
        }
        // Threefish: KeyInit::new == zero tweak (all three sizes)
        if ctx.wants_name("threefish::Threefish") {
            macro_rules! tf {
                ($t:ty, $n:expr) => {{
                    let key = gen::gen(&mut rng, $n, cl);
                    let a = Inst::combined(<$t>::new_from_slice(&key).unwrap());
                    let k: [u8; $n] = key.clone().try_into().unwrap();
                    let b = Inst::combined(<$t>::new_with_tweak(&k, &[0u8; 16]));
                    rep.case(case_hash(stringify!($t), &key, &[], 8005), true);
                    if let Some((x, p, q)) = same_behaviour(&a, &b, &mut rng) {
                        rep.violation(format!("keylen|{}|KeyInit::new != new_with_tweak(key, 0)", stringify!($t)), detail(stringify!($t), &key, &x, &p, &q, "zero tweak"));
                    }
                }};
            }
            tf!(threefish::Threefish256, 32);
            tf!(threefish::Threefish512, 64);
            tf!(threefish::Threefish1024, 128);
        }
    }
    rep.set("equivalences", "rounds", n as i64);
}
