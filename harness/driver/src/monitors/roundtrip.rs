//! C01: dec(enc(x)) == x and enc(dec(x)) == x, single blocks and batches, on every route.
use super::*;
use crate::dynciph::Shape;
use crate::registry::{entries, Made};

pub fn run(ctx: &Ctx) -> Report {
    let mut rep = Report::new("roundtrip");
    let es = entries();
    let nkeys = ctx.budget(300, 4000, 2);
    for e in es.iter().filter(|e| ctx.wants(e)) {
        let id = e.id();
        let mut rng = ctx.rng(&format!("roundtrip:{}", id));
        let mut constructed = 0i64;
        for i in 0..nkeys {
            let kc = gen::pick_class(&mut rng, i);
            let key = entry_key(e, &mut rng, kc);
            let inst = match (e.make)(&key) {
                Made::Ok(x) => x,
                Made::Rejected => {
                    rep.bump(&id, "rejected_accepted_len", 1);
                    continue;
                }
                Made::Panic(m) => {
                    // owned by C10/C11 (construction contract); recorded here, not judged
                    rep.bump(&id, "construct_panic", 1);
                    if rep.notes.len() < 20 {
                        rep.notes.push(format!("construction panicked for {} keylen {}: {}", id, key.len(), m));
                    }
                    continue;
                }
            };
            constructed += 1;
            let bs = inst.bs();
            if i == 0 {
                rep.set(&id, "width_enc", inst.width(true) as i64);
                rep.set(&id, "width_dec", inst.width(false) as i64);
                rep.set(&id, "block_size", bs as i64);
            }
            // single blocks
            for j in 0..4u64 {
                let bc = gen::pick_class(&mut rng, i + j);
                let x = gen::gen(&mut rng, bs, bc);
                note_classes(&mut rep, kc, bc);
                let random = gen::class_is_random(kc) || (gen::class_is_random(bc) && bs >= 8);
                // call shapes rotate: in place, b2b and in/out over separate buffers, backend direct
                let sh = |k: u64| [(Shape::Block, false), (Shape::BlockB2b, true), (Shape::BlockInout, true), (Shape::BackendBlock, true), (Shape::BackendBlockInplace, false)][((i + j + k) % 5) as usize];
                let c = super::kat::run_shape(&inst, true, sh(0), &x);
                let back = super::kat::run_shape(&inst, false, sh(1), &c);
                rep.case(case_hash(&id, &key, &x, 1), random);
                if back != x {
                    rep.violation(format!("roundtrip|{}|dec(enc(x))!=x|keylen={}", id, key.len()), detail(&id, &key, &x, &x, &back, "dec(enc(x))"));
                }
                let p = super::kat::run_shape(&inst, false, sh(2), &x);
                let back2 = super::kat::run_shape(&inst, true, sh(3), &p);
                rep.case(case_hash(&id, &key, &x, 2), random);
                if back2 != x {
                    rep.violation(format!("roundtrip|{}|enc(dec(x))!=x|keylen={}", id, key.len()), detail(&id, &key, &x, &x, &back2, "enc(dec(x))"));
                }
                if i == 0 && j == 0 {
                    rep.sample(J::obj(vec![
                        ("type", J::s(&id)),
                        ("key", J::s(gen::hex(&key))),
                        ("block", J::s(gen::hex(&x))),
                        ("enc", J::s(gen::hex(&c))),
                        ("dec", J::s(gen::hex(&p))),
                    ]));
                }
            }
            // a batch through the multi-block entry points, both orders
            let w = inst.width(true).max(inst.width(false));
            let n = rng.below(3 * w + 3);
            let bc = gen::pick_class(&mut rng, i);
            let mut data = Vec::with_capacity(n * bs);
            for _ in 0..n {
                let cl = if rng.below(2) == 0 { 0 } else { bc };
                data.extend(gen::gen(&mut rng, bs, cl));
            }
            let bsh = |k: u64| [(Shape::Blocks, false), (Shape::BlocksB2b, true), (Shape::BlocksInout, true), (Shape::BackendPar, true), (Shape::BackendParInplace, false)][((i + k) % 5) as usize];
            let mut buf = super::kat::run_shape(&inst, true, bsh(0), &data);
            buf = super::kat::run_shape(&inst, false, bsh(1), &buf);
            rep.case(case_hash(&id, &key, &data, 3), n > 0);
            if buf != data {
                rep.violation(format!("roundtrip|{}|dec_blocks(enc_blocks(x))!=x|keylen={}", id, key.len()), detail(&id, &key, &data, &data, &buf, "batch dec(enc)"));
            }
            buf = super::kat::run_shape(&inst, false, bsh(2), &buf);
            buf = super::kat::run_shape(&inst, true, bsh(3), &buf);
            rep.case(case_hash(&id, &key, &data, 4), n > 0);
            if buf != data {
                rep.violation(format!("roundtrip|{}|enc_blocks(dec_blocks(x))!=x|keylen={}", id, key.len()), detail(&id, &key, &data, &data, &buf, "batch enc(dec)"));
            }
            rep.bump(&id, &format!("keylen:{}", key.len()), 1);
        }
        rep.set(&id, "constructed", constructed);
    }
    wblock_roundtrip(ctx, &mut rep);
    rep
}

/// BelT wide block: both orders on every length 32..=300 plus random longer ones.
fn wblock_roundtrip(ctx: &Ctx, rep: &mut Report) {
    if !ctx.wants_name("belt_block::belt_wblock") {
        return;
    }
    let id = "belt_block::belt_wblock_enc/dec";
    let mut rng = ctx.rng("roundtrip:wblock");
    let reps = ctx.budget(1, 20, 1);
    let mut lens: Vec<usize> = (32..=300).collect();
    for _ in 0..ctx.budget(8, 200, 2) {
        lens.push(301 + rng.below(4096 - 301));
    }
    let mut n = 0i64;
    for _ in 0..reps {
        for &len in &lens {
            if (len as u64) % ctx.nshards != ctx.shard % ctx.nshards {
                continue;
            }
            let kc = gen::pick_class(&mut rng, len as u64);
            let kb = gen::gen(&mut rng, 32, kc);
            let mut key = [0u32; 8];
            for (w, c) in key.iter_mut().zip(kb.chunks_exact(4)) {
                *w = u32::from_le_bytes(c.try_into().unwrap());
            }
            let xc = gen::pick_class(&mut rng, n as u64);
            let x = gen::gen(&mut rng, len, xc);
            let mut b = x.clone();
            let r1 = belt_block::belt_wblock_enc(&mut b, &key).is_ok();
            let r2 = belt_block::belt_wblock_dec(&mut b, &key).is_ok();
            rep.case(case_hash(id, &kb, &x, 5), true);
            if !(r1 && r2) || b != x {
                rep.violation(format!("roundtrip|{}|dec(enc(x))!=x", id), detail(id, &kb, &x, &x, &b, &format!("wblock dec(enc), len {}", len)));
            }
            let mut b = x.clone();
            let r1 = belt_block::belt_wblock_dec(&mut b, &key).is_ok();
            let r2 = belt_block::belt_wblock_enc(&mut b, &key).is_ok();
            rep.case(case_hash(id, &kb, &x, 6), true);
            if !(r1 && r2) || b != x {
                rep.violation(format!("roundtrip|{}|enc(dec(x))!=x", id), detail(id, &kb, &x, &x, &b, &format!("wblock enc(dec), len {}", len)));
            }
            n += 1;
        }
    }
    rep.set(id, "lengths_32_300_dense", 1);
    rep.set(id, "cases", n);
}
