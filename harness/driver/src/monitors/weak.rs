//! C13: weak-key screening flags exactly the degenerate keys; new_checked agrees.
use super::*;
use crate::registry::{types, TypeInfo};

fn strip(k: &[u8]) -> Vec<u8> {
    k.iter().map(|b| b & 0xFE).collect()
}
fn des_weak(k: &[u8]) -> bool {
    refmodels::des::is_nist_weak(k.try_into().unwrap())
}

/// The semantic rule, independent of the repository's table.
fn oracle(rule: &str, key: &[u8]) -> bool {
    match rule {
        "aes" => key[..key.len() / 2].iter().all(|b| *b == 0),
        "des" => des_weak(key),
        "tdes2" => {
            let (a, b) = (&key[..8], &key[8..16]);
            des_weak(a) || des_weak(b) || strip(a) == strip(b)
        }
        "tdes3" => {
            let (a, b, c) = (&key[..8], &key[8..16], &key[16..24]);
            des_weak(a) || des_weak(b) || des_weak(c) || strip(a) == strip(b) || strip(a) == strip(c) || strip(b) == strip(c)
        }
        _ => false,
    }
}

/// The 64 NIST keys (parity-cleared), found by filtering the 4^8 candidates whose bytes are
/// drawn from {00,1E,E0,FE} (bytes 0-3) and {00,0E,F0,FE} (bytes 4-7) through the semantic rule.
fn nist64() -> Vec<[u8; 8]> {
    // bytes of the NIST keys with parity cleared: first half of the key / second half
    let vals = [[0x00u8, 0x1E, 0xE0, 0xFE], [0x00u8, 0x0E, 0xF0, 0xFE]];
    let mut out = Vec::new();
    for n in 0..65536u32 {
        let mut k = [0u8; 8];
        for (i, b) in k.iter_mut().enumerate() {
            *b = vals[i / 4][((n >> (2 * i)) & 3) as usize];
        }
        if des_weak(&k) {
            out.push(k);
        }
    }
    out
}

fn check(rep: &mut Report, t: &TypeInfo, key: &[u8], random: bool, why: &str) {
    let want = oracle(t.weak_rule, key);
    let got = match std::panic::catch_unwind(|| (t.weak)(key)) {
        Ok(Some(g)) => g,
        _ => return,
    };
    rep.case(case_hash(&t.name, key, &[], 1), random);
    rep.bump(&t.name, if want { "weak_expected" } else { "ok_expected" }, 1);
    if got != want {
        let sig = if want {
            format!("weak|{}|degenerate key not flagged ({})", t.name, why)
        } else {
            format!("weak|{}|sound key flagged ({})", t.name, why)
        };
        rep.violation(sig, detail(&t.name, key, &[], &[want as u8], &[got as u8], why));
    }
    // new_checked fails exactly when the test does; otherwise same cipher as new
    if let Ok(Some(nc)) = std::panic::catch_unwind(|| (t.new_checked)(key)) {
        if nc.is_none() != got {
            rep.violation(format!("weak|{}|new_checked disagrees with weak_key_test", t.name), detail(&t.name, key, &[], &[got as u8], &[nc.is_none() as u8], why));
        }
        if let (Some(a), Ok(Some(b))) = (nc, std::panic::catch_unwind(|| (t.new_fixed)(key))) {
            let bs = a.bs();
            let x: Vec<u8> = (0..bs).map(|i| (i as u8).wrapping_mul(37).wrapping_add(key.get(i % key.len().max(1)).cloned().unwrap_or(0))).collect();
            let (mut p, mut q) = (x.clone(), x.clone());
            a.enc1(&mut p);
            b.enc1(&mut q);
            let (mut p2, mut q2) = (x.clone(), x.clone());
            a.dec1(&mut p2);
            b.dec1(&mut q2);
            if p != q || p2 != q2 {
                rep.violation(format!("weak|{}|new_checked returns a different cipher than new", t.name), detail(&t.name, key, &x, &q, &p, why));
            }
        }
    }
}

pub fn run(ctx: &Ctx) -> Report {
    let mut rep = Report::new("weak");
    let ts = types();
    let nrand = ctx.budget(20_000, 400_000, 10);
    let light = ctx.light();
    let weak64: Vec<[u8; 8]> = if light {
        // interpreter slice: the 4 weak and 12 semi-weak keys of SP 800-67 (parity cleared),
        // each still judged by the semantic rule
        const L: [u64; 16] = [
            0x0101010101010101, 0xFEFEFEFEFEFEFEFE, 0xE0E0E0E0F1F1F1F1, 0x1F1F1F1F0E0E0E0E, 0x01FE01FE01FE01FE, 0xFE01FE01FE01FE01,
            0x1FE01FE00EF10EF1, 0xE01FE01FF10EF10E, 0x01E001E001F101F1, 0xE001E001F101F101, 0x1FFE1FFE0EFE0EFE, 0xFE1FFE1FFE0EFE0E,
            0x011F011F010E010E, 0x1F011F010E010E01, 0xE0FEE0FEF1FEF1FE, 0xFEE0FEE0FEF1FEF1,
        ];
        L.iter().map(|k| { let mut b = k.to_be_bytes(); b.iter_mut().for_each(|x| *x &= 0xFE); b }).filter(|k| des_weak(k)).collect()
    } else {
        nist64()
    };
    rep.extra.insert("x_nist_weak_keys_derived".into(), J::I(weak64.len() as i64));
    if weak64.len() != if light { 16 } else { 64 } {
        rep.inconclusive.push(format!("weak-key oracle self-check failed: derived {} keys", weak64.len()));
        return rep;
    }
    for (ti, t) in ts.iter().enumerate() {
        if !ctx.wants_name(&t.name) || (ti as u64) % ctx.nshards != ctx.shard {
            continue;
        }
        let mut rng = ctx.rng(&format!("weak:{}", t.name));
        let ks = t.key_size;
        match t.weak_rule {
            "aes" => {
                // every single-bit key, every single-zero-bit key
                for bit in (0..ks * 8).filter(|b| !light || b % 7 == 0) {
                    let mut k = vec![0u8; ks];
                    k[bit / 8] = 0x80 >> (bit % 8);
                    check(&mut rep, t, &k, false, "single set bit");
                    let mut k = vec![0xFFu8; ks];
                    k[bit / 8] ^= 0x80 >> (bit % 8);
                    check(&mut rep, t, &k, false, "single clear bit");
                }
                check(&mut rep, t, &vec![0u8; ks], false, "all zero");
                for i in 0..nrand {
                    // upper half zero, lower half random / structured
                    let cl = gen::pick_class(&mut rng, i);
                    let mut k = vec![0u8; ks];
                    let lo = gen::gen(&mut rng, ks - ks / 2, cl);
                    k[ks / 2..].copy_from_slice(&lo);
                    check(&mut rep, t, &k, true, "upper half zero");
                    // one bit set in the upper half
                    let bit = rng.below(ks / 2 * 8);
                    k[bit / 8] |= 1 << (bit % 8);
                    check(&mut rep, t, &k, true, "one bit in upper half");
                    // lower half zero, upper random
                    let mut k = gen::gen(&mut rng, ks, cl);
                    k[ks / 2..].iter_mut().for_each(|b| *b = 0);
                    check(&mut rep, t, &k, true, "lower half zero");
                    let k = gen::gen(&mut rng, ks, cl);
                    check(&mut rep, t, &k, true, "class key");
                }
            }
            "des" => {
                // the 64 keys x all 256 parity patterns (exhaustive)
                for wk in &weak64 {
                    for par in (0..256u32).filter(|p| !light || p % 61 == (ctx.seed % 61) as u32) {
                        let k: Vec<u8> = wk.iter().enumerate().map(|(i, b)| b | ((par >> i) & 1) as u8).collect();
                        check(&mut rep, t, &k, false, "NIST weak key x parity pattern");
                    }
                    // each of the 56 effective bits flipped
                    for bit in 0..64 {
                        if bit % 8 == 7 || (light && bit % 9 != 0) {
                            continue;
                        }
                        let mut k = wk.to_vec();
                        k[bit / 8] ^= 0x80 >> (bit % 8);
                        check(&mut rep, t, &k, false, "weak key with one effective bit flipped");
                    }
                }
                rep.set(&t.name, "weak_x_parity_exhaustive", if light { 0 } else { 64 * 256 });
                for i in 0..nrand {
                    let cl = gen::pick_class(&mut rng, i);
                    let k = gen::gen(&mut rng, 8, cl);
                    check(&mut rep, t, &k, true, "class key");
                }
            }
            "tdes2" | "tdes3" => {
                let parts = ks / 8;
                for i in 0..nrand {
                    let cl = gen::pick_class(&mut rng, i);
                    let mut k = gen::gen(&mut rng, ks, cl);
                    check(&mut rep, t, &k, true, "class key");
                    let mut k2 = gen::gen(&mut rng, ks, 0);
                    // weak part in each position, random parity
                    let pos = rng.below(parts);
                    let par = rng.next() as u32;
                    let wk = weak64[rng.below(weak64.len())];
                    for j in 0..8 {
                        k2[pos * 8 + j] = wk[j] | ((par >> j) & 1) as u8;
                    }
                    check(&mut rep, t, &k2, true, "weak part");
                    // two equal parts, possibly differing in parity only
                    k = gen::gen(&mut rng, ks, 0);
                    let (a, b) = if parts == 2 { (0, 1) } else { [(0, 1), (0, 2), (1, 2)][rng.below(3)] };
                    let par = if rng.below(2) == 0 { 0 } else { rng.next() as u32 };
                    for j in 0..8 {
                        k[b * 8 + j] = k[a * 8 + j] ^ ((par >> j) & 1) as u8;
                    }
                    check(&mut rep, t, &k, true, "two equal parts (parity may differ)");
                    // nearly equal parts: one effective bit apart (must pass unless weak)
                    let bit = rng.below(56);
                    let (byte, off) = (bit / 7, bit % 7);
                    k[b * 8 + byte] ^= 0x80 >> off;
                    check(&mut rep, t, &k, true, "parts one effective bit apart");
                }
            }
            _ => {
                // never fails
                for i in 0..(nrand / 20).max(20) {
                    let cl = gen::pick_class(&mut rng, i);
                    let k = gen::gen(&mut rng, ks, cl);
                    check(&mut rep, t, &k, gen::class_is_random(cl), "class key");
                }
                for b in [0x00u8, 0xFF, 0x01, 0xFE] {
                    check(&mut rep, t, &vec![b; ks], false, "constant key");
                }
            }
        }
        rep.sample(J::obj(vec![("type", J::s(&t.name)), ("rule", J::s(t.weak_rule)), ("key_size", J::I(ks as i64))]));
    }
    rep
}
