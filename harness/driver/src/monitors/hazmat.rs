//! C17: aes::hazmat round functions equal the FIPS-197 round transformations, single and
//! 8-wide, for the real crate (whatever implementation this configuration selects) and for the
//! shadow crates (ARMv8 over the ISA model, fixslice32, fixslice32 compact).
use super::*;
use refmodels::aes as R;

struct Api {
    name: &'static str,
    cipher_round: fn(&mut [u8; 16], &[u8; 16]),
    equiv_inv_cipher_round: fn(&mut [u8; 16], &[u8; 16]),
    mix_columns: fn(&mut [u8; 16]),
    inv_mix_columns: fn(&mut [u8; 16]),
    cipher_round_par: fn(&mut [[u8; 16]; 8], &[[u8; 16]; 8]),
    equiv_inv_cipher_round_par: fn(&mut [[u8; 16]; 8], &[[u8; 16]; 8]),
}

macro_rules! api {
    ($k:ident, $name:expr) => {{
        fn cr(b: &mut [u8; 16], k: &[u8; 16]) {
            let mut x: $k::Block = (*b).into();
            $k::hazmat::cipher_round(&mut x, &(*k).into());
            b.copy_from_slice(&x);
        }
        fn eicr(b: &mut [u8; 16], k: &[u8; 16]) {
            let mut x: $k::Block = (*b).into();
            $k::hazmat::equiv_inv_cipher_round(&mut x, &(*k).into());
            b.copy_from_slice(&x);
        }
        fn mc(b: &mut [u8; 16]) {
            let mut x: $k::Block = (*b).into();
            $k::hazmat::mix_columns(&mut x);
            b.copy_from_slice(&x);
        }
        fn imc(b: &mut [u8; 16]) {
            let mut x: $k::Block = (*b).into();
            $k::hazmat::inv_mix_columns(&mut x);
            b.copy_from_slice(&x);
        }
        fn crp(b: &mut [[u8; 16]; 8], k: &[[u8; 16]; 8]) {
            let mut x: $k::hazmat::Block8 = cipher::array::Array::from_fn(|i| b[i].into());
            let kk: $k::hazmat::Block8 = cipher::array::Array::from_fn(|i| k[i].into());
            $k::hazmat::cipher_round_par(&mut x, &kk);
            for i in 0..8 {
                b[i].copy_from_slice(&x[i]);
            }
        }
        fn eicrp(b: &mut [[u8; 16]; 8], k: &[[u8; 16]; 8]) {
            let mut x: $k::hazmat::Block8 = cipher::array::Array::from_fn(|i| b[i].into());
            let kk: $k::hazmat::Block8 = cipher::array::Array::from_fn(|i| k[i].into());
            $k::hazmat::equiv_inv_cipher_round_par(&mut x, &kk);
            for i in 0..8 {
                b[i].copy_from_slice(&x[i]);
            }
        }
        Api { name: $name, cipher_round: cr, equiv_inv_cipher_round: eicr, mix_columns: mc, inv_mix_columns: imc, cipher_round_par: crp, equiv_inv_cipher_round_par: eicrp }
    }};
}

fn a16(v: Vec<u8>) -> [u8; 16] {
    v.try_into().unwrap()
}

pub fn run(ctx: &Ctx) -> Report {
    let mut rep = Report::new("hazmat");
    #[cfg(not(feature = "hazmat"))]
    {
        rep.inconclusive.push("driver built without the hazmat feature".into());
        return rep;
    }
    #[cfg(feature = "hazmat")]
    {
        let mut apis = vec![api!(aes, "aes::hazmat")];
        #[cfg(feature = "shadows")]
        {
            apis.push(api!(aes_armv8, "S:aes_armv8::hazmat"));
            apis.push(api!(aes_soft32, "S:aes_soft32::hazmat"));
            apis.push(api!(aes_soft32c, "S:aes_soft32c::hazmat"));
        }
        let n = ctx.budget(40_000, 800_000, 20);
        for api in apis.iter().filter(|a| ctx.wants_name(a.name)) {
            let id = api.name;
            let mut rng = ctx.rng(&format!("hazmat:{}", id));
            let viol = |rep: &mut Report, what: &str, k: &[u8], x: &[u8], want: &[u8], got: &[u8]| {
                rep.violation(format!("hazmat|{}|{}", id, what), detail(id, k, x, want, got, what));
            };
            for i in 0..n {
                let (bc, kc) = (gen::pick_class(&mut rng, i), gen::pick_class(&mut rng, i + 1));
                let x = a16(gen::gen(&mut rng, 16, bc));
                let k = a16(gen::gen(&mut rng, 16, kc));
                note_classes(&mut rep, kc, bc);
                let random = gen::class_is_random(bc) || gen::class_is_random(kc);
                // cipher_round
                let (mut got, mut want) = (x, x);
                (api.cipher_round)(&mut got, &k);
                R::cipher_round(&mut want, &k);
                rep.case(case_hash(id, &k, &x, 1), random);
                if got != want {
                    viol(&mut rep, "cipher_round != MixColumns(ShiftRows(SubBytes(b))) ^ k", &k, &x, &want, &got);
                }
                // equiv_inv_cipher_round
                let (mut got, mut want) = (x, x);
                (api.equiv_inv_cipher_round)(&mut got, &k);
                R::equiv_inv_cipher_round(&mut want, &k);
                rep.case(case_hash(id, &k, &x, 2), random);
                if got != want {
                    viol(&mut rep, "equiv_inv_cipher_round != InvMixColumns(InvShiftRows(InvSubBytes(b))) ^ k", &k, &x, &want, &got);
                }
                // mix_columns / inv_mix_columns and mutual inverses
                let (mut got, mut want) = (x, x);
                (api.mix_columns)(&mut got);
                R::mix_columns(&mut want);
                rep.case(case_hash(id, &[], &x, 3), gen::class_is_random(bc));
                if got != want {
                    viol(&mut rep, "mix_columns != FIPS-197 MixColumns", &[], &x, &want, &got);
                }
                let mut back = got;
                (api.inv_mix_columns)(&mut back);
                if back != x {
                    viol(&mut rep, "inv_mix_columns(mix_columns(b)) != b", &[], &x, &x, &back);
                }
                let (mut got, mut want) = (x, x);
                (api.inv_mix_columns)(&mut got);
                R::inv_mix_columns(&mut want);
                rep.case(case_hash(id, &[], &x, 4), gen::class_is_random(bc));
                if got != want {
                    viol(&mut rep, "inv_mix_columns != FIPS-197 InvMixColumns", &[], &x, &want, &got);
                }
                let mut back = got;
                (api.mix_columns)(&mut back);
                if back != x {
                    viol(&mut rep, "mix_columns(inv_mix_columns(b)) != b", &[], &x, &x, &back);
                }
                // 8-wide forms: eight distinct blocks and keys vs eight single reference calls
                if i % 4 == 0 {
                    let mut bs = [[0u8; 16]; 8];
                    let mut ks = [[0u8; 16]; 8];
                    for j in 0..8 {
                        let cl = if j % 2 == 0 { 0 } else { bc };
                        bs[j] = a16(gen::gen(&mut rng, 16, cl));
                        ks[j] = a16(gen::gen(&mut rng, 16, if j % 3 == 0 { kc } else { 0 }));
                    }
                    for (which, f, rf) in [
                        ("cipher_round_par", api.cipher_round_par, R::cipher_round as fn(&mut [u8; 16], &[u8; 16])),
                        ("equiv_inv_cipher_round_par", api.equiv_inv_cipher_round_par, R::equiv_inv_cipher_round as fn(&mut [u8; 16], &[u8; 16])),
                    ] {
                        let mut got = bs;
                        f(&mut got, &ks);
                        let mut want = bs;
                        for j in 0..8 {
                            rf(&mut want[j], &ks[j]);
                        }
                        rep.case(case_hash(id, &ks.concat(), &bs.concat(), 5 + (which.len() as u64)), true);
                        if got != want {
                            let j = (0..8).find(|j| got[*j] != want[*j]).unwrap();
                            viol(&mut rep, &format!("{} lane != single call with the respective key", which), &ks.concat(), &bs.concat(), &want.concat(), &got.concat());
                            let _ = j;
                        }
                        // non-interference: perturb lane j (block or key), other lanes unchanged
                        let j = rng.below(8);
                        let mut bs2 = bs;
                        let mut ks2 = ks;
                        if rng.below(2) == 0 {
                            bs2[j][rng.below(16)] ^= 1 << rng.below(8);
                        } else {
                            ks2[j][rng.below(16)] ^= 1 << rng.below(8);
                        }
                        let mut got2 = bs2;
                        f(&mut got2, &ks2);
                        for l in 0..8 {
                            if l != j && got2[l] != got[l] {
                                viol(&mut rep, &format!("{} lane depends on another lane", which), &ks2.concat(), &bs2.concat(), &got.concat(), &got2.concat());
                                break;
                            }
                        }
                        if got2[j] == got[j] {
                            viol(&mut rep, &format!("{} lane ignores its own input", which), &ks2.concat(), &bs2.concat(), &got.concat(), &got2.concat());
                        }
                    }
                }
                if i == 0 {
                    let mut c = x;
                    R::cipher_round(&mut c, &k);
                    rep.sample(J::obj(vec![("api", J::s(id)), ("block", J::s(gen::hex(&x))), ("round_key", J::s(gen::hex(&k))), ("cipher_round_reference", J::s(gen::hex(&c)))]));
                }
            }
            rep.set(id, "cases", n as i64);
        }
        rep
    }
}
