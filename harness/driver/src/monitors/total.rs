//! C20: every encrypt/decrypt entry point returns normally on every accepted key and any
//! data (no panic / overflow / bounds / debug assertion), in checked and unchecked builds; a
//! digest of every output is logged so that the offline join can compare profiles.
use super::*;
use crate::dynciph::Shape;
use crate::registry::{entries, Made};
use std::panic::{catch_unwind, AssertUnwindSafe};

pub fn digest(d: &[u8]) -> u64 {
    crate::rng::fnv64(d).rotate_left(29) ^ crate::rng::fnv64(&d.iter().rev().cloned().collect::<Vec<u8>>())
}

pub fn run(ctx: &Ctx) -> Report {
    let mut rep = Report::new("total");
    let es = entries();
    let nkeys = ctx.budget(600, 20_000, 2);
    let mut xlog: std::collections::BTreeMap<String, J> = Default::default();
    for e in es.iter().filter(|e| ctx.wants(e)) {
        if !(e.primary || e.route == "new_with_eff_key_len" || e.route.starts_with("new_with_tweak") || e.route == "tweak+block_u64" || e.route == "raw") {
            continue;
        }
        let id = e.id();
        let mut rng = ctx.rng(&format!("total:{}", id));
        let mut log: Vec<J> = Vec::new();
        for i in 0..nkeys {
            // aim at the arithmetic: edge words for keys and blocks in most draws
            let kc = if i % 3 == 0 { 0 } else { [1usize, 2, 8, 11, 12, 13, 7, 14][rng.below(8)] };
            let key = entry_key(e, &mut rng, kc);
            let inst = match (e.make)(&key) {
                Made::Ok(x) => x,
                Made::Rejected => continue,
                Made::Panic(m) => {
                    rep.violation(format!("total|{}|constructor panicked on an accepted key|keylen={}", id, key.len()), detail(&id, &key, &[], &[], &[], &m));
                    continue;
                }
            };
            let bs = inst.bs();
            let mut acc: u64 = 0;
            for j in 0..4u64 {
                let bc = if j == 0 { 0 } else { [1usize, 2, 8, 11, 12, 13, 3, 4, 9][rng.below(9)] };
                // fixed batch sizes, independent of this backend's width: every configuration consumes
                // the generator identically, so logs are comparable case by case
                let n = [1usize, 1, 10, 43][j as usize % 4];
                let data = gen::gen(&mut rng, n * bs, bc);
                note_classes(&mut rep, kc, bc);
                let shape = if n == 1 { [Shape::Block, Shape::BlockB2b, Shape::BlockInout, Shape::BackendBlockInplace][(i as usize + j as usize) % 4] } else { [Shape::Blocks, Shape::BlocksInout, Shape::BackendPar, Shape::BackendParInplace][(i as usize) % 4] };
                for encrypt in [true, false] {
                    // input and output windows at independent byte offsets 0..15 inside larger buffers
                    // (aligned-access instructions on a caller's buffer abort the process: the parent
                    // check reports that death)
                    let (oi, oo) = (rng.below(16), rng.below(16));
                    let mut inbuf = vec![0u8; data.len() + 16];
                    inbuf[oi..oi + data.len()].copy_from_slice(&data);
                    let mut outbuf = vec![0x3Cu8; data.len() + 16];
                    let separate = shape.needs_input() || (i + j) % 2 == 1;
                    if !separate {
                        outbuf[oo..oo + data.len()].copy_from_slice(&data);
                    }
                    let r = catch_unwind(AssertUnwindSafe(|| {
                        if separate {
                            inst.run(encrypt, shape, Some(&inbuf[oi..oi + data.len()]), &mut outbuf[oo..oo + data.len()])
                        } else {
                            inst.run(encrypt, shape, None, &mut outbuf[oo..oo + data.len()])
                        }
                    }));
                    let out = outbuf[oo..oo + data.len()].to_vec();
                    rep.case(case_hash(&id, &key, &data, shape as u64 * 2 + encrypt as u64), gen::class_is_random(kc) || gen::class_is_random(bc));
                    match r {
                        Ok(()) => acc = acc.rotate_left(7) ^ digest(&out),
                        Err(p) => {
                            let loc = crate::LAST_PANIC.lock().map(|g| g.clone()).unwrap_or_default();
                            rep.violation(
                                format!("total|{}|{} panicked|{}", id, if encrypt { "encrypt" } else { "decrypt" }, short_loc(&loc)),
                                detail(&id, &key, &data, &[], &[], &format!("{} ({}) shape {}", crate::registry::panic_msg(p), loc, shape.name())),
                            );
                        }
                    }
                }
            }
            log.push(J::S(format!("{:016x}", acc)));
            if i == 0 {
                rep.sample(J::obj(vec![("type", J::s(&id)), ("key", J::s(gen::hex(&key))), ("output_digest", J::s(format!("{:016x}", acc)))]));
            }
        }
        rep.set(&id, "keys", log.len() as i64);
        xlog.insert(id.clone(), J::A(log));
    }
    // wide block entry points
    if ctx.wants_name("belt_block::belt_wblock") {
        let mut rng = ctx.rng("total:wblock");
        let mut log = Vec::new();
        // thorough: one very long buffer per run (block count beyond 16 bits; the algorithm is
        // quadratic, ~20 s) on shard 0
        let huge = ctx.tier == Tier::Thorough && ctx.scale >= 1.0 && ctx.shard == 0;
        let nw = ctx.budget(300, 20_000, 4);
        for i in 0..nw + huge as u64 {
            let len = if i == nw { 524_288 + 17 } else if i < 300 { 32 + i as usize } else if i % 50 == 0 { 32 + rng.below(70_000) } else { 32 + rng.below(4000) };
            let kc = gen::pick_class(&mut rng, i);
            let kb = gen::gen(&mut rng, 32, kc);
            let mut key = [0u32; 8];
            for (w, c) in key.iter_mut().zip(kb.chunks_exact(4)) {
                *w = u32::from_le_bytes(c.try_into().unwrap());
            }
            let xc = gen::pick_class(&mut rng, i + 1);
            let x = gen::gen(&mut rng, len, xc);
            let mut acc = 0u64;
            for encrypt in [true, false] {
                let mut b = x.clone();
                let r = catch_unwind(AssertUnwindSafe(|| if encrypt { belt_block::belt_wblock_enc(&mut b, &key).is_ok() } else { belt_block::belt_wblock_dec(&mut b, &key).is_ok() }));
                rep.case(case_hash("belt_wblock", &kb, &x, encrypt as u64), true);
                match r {
                    Ok(true) => acc = acc.rotate_left(7) ^ digest(&b),
                    Ok(false) => rep.violation("total|belt_block::belt_wblock|error on a buffer of at least 32 bytes".into(), detail("belt_wblock", &kb, &x, &[], &[], &format!("len {}", len))),
                    Err(p) => rep.violation("total|belt_block::belt_wblock|panicked".into(), detail("belt_wblock", &kb, &x, &[], &[], &crate::registry::panic_msg(p))),
                }
            }
            log.push(J::S(format!("{:016x}", acc)));
        }
        xlog.insert("belt_block::belt_wblock".into(), J::A(log));
    }
    rep.extra.insert("x_log".into(), J::O(xlog));
    rep.extra.insert("x_overflow_checks".into(), J::B(cfg!(debug_assertions)));
    rep
}

fn short_loc(loc: &str) -> String {
    // "panicked at /repo/rc2/src/lib.rs:88:13:\nattempt to add with overflow" -> "rc2/src/lib.rs:88 attempt to add with overflow"
    let l = loc.replace("panicked at ", "");
    let mut parts = l.splitn(2, '\n');
    let place = parts.next().unwrap_or("").trim_end_matches(':');
    let msg = parts.next().unwrap_or("").lines().next().unwrap_or("");
    let place = place.trim_start_matches("/repo/");
    let place: Vec<&str> = place.split(':').collect();
    format!("{}:{} {}", place.first().unwrap_or(&""), place.get(1).unwrap_or(&""), msg)
}
