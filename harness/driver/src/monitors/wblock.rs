//! C18: BelT wide-block conformance, inverses, and clean rejection of short input.
use super::*;

pub fn run(ctx: &Ctx) -> Report {
    let mut rep = Report::new("wblock");
    let id = "belt_block::belt_wblock";
    let mut rng = ctx.rng("wblock");
    let reps = ctx.budget(2, 60, 1);
    // interpreter slices: a window of short lengths that moves with the seed
    let short = ctx.flags.iter().any(|a| a == "--short");
    let mut lens: Vec<usize> = if short { (0..24).map(|i| 32 + ((ctx.seed as usize * 7 + i * 5) % 120)).collect() } else { (32..=600).collect() };
    let extra = if short { 0 } else { ctx.budget(6, 300, 1) };
    for _ in 0..extra {
        lens.push(601 + rng.below(65536 - 601));
    }
    for r in 0..reps {
        for &len in &lens {
            if (len as u64 + r) % ctx.nshards != ctx.shard {
                continue;
            }
            let kc = gen::pick_class(&mut rng, len as u64 + r);
            let kb = gen::gen(&mut rng, 32, kc);
            let mut key = [0u32; 8];
            for (w, c) in key.iter_mut().zip(kb.chunks_exact(4)) {
                *w = u32::from_le_bytes(c.try_into().unwrap());
            }
            let kr: [u8; 32] = kb.clone().try_into().unwrap();
            let xc = gen::pick_class(&mut rng, r);
            let x = gen::gen(&mut rng, len, xc);
            // guard bytes around the buffer
            let mut arena = vec![0xA5u8; len + 64];
            for encrypt in [true, false] {
                arena.iter_mut().for_each(|b| *b = 0xA5);
                arena[32..32 + len].copy_from_slice(&x);
                let res = if encrypt { belt_block::belt_wblock_enc(&mut arena[32..32 + len], &key) } else { belt_block::belt_wblock_dec(&mut arena[32..32 + len], &key) };
                let mut want = x.clone();
                let okm = if encrypt { refmodels::belt::wblock_enc(&mut want, &kr) } else { refmodels::belt::wblock_dec(&mut want, &kr) };
                rep.case(case_hash(id, &kb, &x, encrypt as u64), true);
                rep.count(if len % 16 == 0 { "len_multiple_of_16" } else { "len_not_multiple_of_16" }, 1);
                if res.is_err() || !okm {
                    rep.violation(format!("wblock|{}|{} returned an error for length >= 32", id, dir(encrypt)), detail(id, &kb, &x, &[], &[], &format!("len {}", len)));
                    continue;
                }
                if arena[32..32 + len] != want[..] {
                    rep.violation(format!("wblock|{}|{} != STB reference", id, dir(encrypt)), detail(id, &kb, &x, &want, &arena[32..32 + len], &format!("len {}", len)));
                }
                if arena[..32].iter().chain(arena[32 + len..].iter()).any(|b| *b != 0xA5) {
                    rep.violation(format!("wblock|{}|{} wrote outside the buffer", id, dir(encrypt)), detail(id, &kb, &x, &[], &[], &format!("len {}", len)));
                }
                // inverse
                let mut back = arena[32..32 + len].to_vec();
                let r2 = if encrypt { belt_block::belt_wblock_dec(&mut back, &key) } else { belt_block::belt_wblock_enc(&mut back, &key) };
                rep.case(case_hash(id, &kb, &x, 2 + encrypt as u64), true);
                if r2.is_err() || back != x {
                    rep.violation(format!("wblock|{}|inverse of {} does not return the input", id, dir(encrypt)), detail(id, &kb, &x, &x, &back, &format!("len {}", len)));
                }
            }
            if r == 0 && len == 47 {
                rep.sample(J::obj(vec![("len", J::I(len as i64)), ("key", J::s(gen::hex(&kb))), ("input", J::s(gen::hex(&x)))]));
            }
        }
        // short input: error, buffer untouched (with guards)
        for len in 0..32usize {
            if (len as u64 + r) % ctx.nshards != ctx.shard {
                continue;
            }
            let kb = gen::gen(&mut rng, 32, 0);
            let mut key = [0u32; 8];
            for (w, c) in key.iter_mut().zip(kb.chunks_exact(4)) {
                *w = u32::from_le_bytes(c.try_into().unwrap());
            }
            let xc = gen::pick_class(&mut rng, r + len as u64);
            let x = gen::gen(&mut rng, len, xc);
            for encrypt in [true, false] {
                let mut arena = vec![0x5Au8; len + 64];
                arena[32..32 + len].copy_from_slice(&x);
                let res = std::panic::catch_unwind(std::panic::AssertUnwindSafe(|| {
                    if encrypt {
                        belt_block::belt_wblock_enc(&mut arena[32..32 + len], &key).is_err()
                    } else {
                        belt_block::belt_wblock_dec(&mut arena[32..32 + len], &key).is_err()
                    }
                }));
                rep.case(case_hash(id, &kb, &x, 10 + encrypt as u64 + 2 * len as u64), len >= 8);
                rep.count("short_inputs", 1);
                match res {
                    Ok(true) => {}
                    Ok(false) => rep.violation(format!("wblock|{}|{} accepted an input shorter than 32 bytes", id, dir(encrypt)), detail(id, &kb, &x, &[], &[], &format!("len {}", len))),
                    Err(e) => rep.violation(format!("wblock|{}|{} panicked on an input shorter than 32 bytes", id, dir(encrypt)), detail(id, &kb, &x, &[], &[], &format!("len {}: {}", len, crate::registry::panic_msg(e)))),
                }
                if arena[32..32 + len] != x[..] || arena[..32].iter().chain(arena[32 + len..].iter()).any(|b| *b != 0x5A) {
                    rep.violation(format!("wblock|{}|{} modified a rejected buffer", id, dir(encrypt)), detail(id, &kb, &x, &x, &arena[32..32 + len], &format!("len {}", len)));
                }
            }
        }
    }
    rep.extra.insert("x_lengths_dense".into(), J::s("0..=600 every length; sampled to 65536"));
    rep
}

fn dir(encrypt: bool) -> &'static str {
    if encrypt {
        "belt_wblock_enc"
    } else {
        "belt_wblock_dec"
    }
}
