mod dynciph;
mod gen;
mod refs;
mod registry;
mod report;
mod rng;

fn main() {
    let es = registry::entries();
    let ts = registry::types();
    println!("{} entries, {} types", es.len(), ts.len());
    let mut ok = 0;
    for e in &es {
        if e.key_lens.is_empty() { continue; }
        let k = vec![7u8; e.key_lens[0]];
        match (e.make)(&k) {
            registry::Made::Ok(i) => {
                let mut b = vec![1u8; i.bs()];
                i.enc1(&mut b);
                i.dec1(&mut b);
                assert!(b.iter().all(|x| *x == 1), "{}", e.id());
                ok += 1;
                if e.route == "new" { println!("{} w={}/{}", e.id(), i.width(true), i.width(false)); }
            }
            registry::Made::Rejected => println!("REJECTED {}", e.id()),
            registry::Made::Panic(m) => println!("PANIC {} {}", e.id(), m),
        }
    }
    println!("ok {}", ok);
}
