mod bundled_sboxes;
mod dynciph;
mod gen;
mod monitors;
mod refs;
mod registry;
mod report;
mod rng;

use monitors::{Ctx, Tier};
use report::J;
use std::sync::Mutex;

pub static LAST_PANIC: Mutex<String> = Mutex::new(String::new());

#[cfg(any(target_arch = "x86_64", target_arch = "x86"))]
pub fn detect_calls() -> i64 {
    cpufeatures::verif::calls() as i64
}
#[cfg(not(any(target_arch = "x86_64", target_arch = "x86")))]
pub fn detect_calls() -> i64 {
    0
}

fn arg(args: &[String], name: &str) -> Option<String> {
    args.iter().position(|a| a == name).and_then(|i| args.get(i + 1).cloned())
}

fn main() {
    let args: Vec<String> = std::env::args().collect();
    if args.len() < 2 {
        eprintln!("usage: bcmon <monitor> [--seed N] [--tier quick|thorough] [--shard i/n] [--cfg id] [--detect off] [--scale f] [--filter s] [--prop Cxx] [--out file]");
        std::process::exit(2);
    }
    let monitor = args[1].clone();
    let detect_off = arg(&args, "--detect").map(|v| v == "off").unwrap_or(false);
    // must happen before any cipher is constructed and never change afterwards
    #[cfg(any(target_arch = "x86_64", target_arch = "x86"))]
    {
        cpufeatures::verif::set_force_absent(detect_off);
        if let Some(d) = arg(&args, "--detect-delay") {
            cpufeatures::verif::set_delay(d.parse().unwrap_or(0));
        }
    }
    // panics are observations, not crashes: remember the message, stay quiet
    std::panic::set_hook(Box::new(|info| {
        let mut g = LAST_PANIC.lock().unwrap_or_else(|e| e.into_inner());
        *g = format!("{}", info);
    }));
    let shard = arg(&args, "--shard").unwrap_or_else(|| "0/1".into());
    let (si, sn) = shard.split_once('/').map(|(a, b)| (a.parse().unwrap_or(0), b.parse().unwrap_or(1))).unwrap_or((0, 1));
    let ctx = Ctx {
        seed: arg(&args, "--seed").and_then(|s| s.parse().ok()).unwrap_or(1),
        shard: si,
        nshards: sn.max(1),
        tier: if arg(&args, "--tier").as_deref() == Some("thorough") { Tier::Thorough } else { Tier::Quick },
        cfg: arg(&args, "--cfg").unwrap_or_else(|| "dev".into()),
        detect_off,
        scale: arg(&args, "--scale").and_then(|s| s.parse().ok()).unwrap_or(1.0),
        filter: arg(&args, "--filter"),
        prop: arg(&args, "--prop"),
        no_shadow: args.iter().any(|a| a == "--no-shadow"),
        sample_mod: arg(&args, "--sample-mod").and_then(|s| s.parse().ok()),
        flags: args.clone(),
        routes: arg(&args, "--routes").map(|s| s.split(',').map(|x| x.to_string()).collect()),
    };
    let t0 = std::time::Instant::now();
    let rep = match monitor.as_str() {
        "roundtrip" => monitors::roundtrip::run(&ctx),
        "kat" => monitors::kat::run(&ctx),
        "batch" => monitors::batch::run(&ctx),
        "keylen" => monitors::keylen::run(&ctx),
        "weak" => monitors::weak::run(&ctx),
        "names" => monitors::names::run(&ctx),
        "wblock" => monitors::wblock::run(&ctx),
        "zeroize" => monitors::zeroize::run(&ctx),
        "hazmat" => monitors::hazmat::run(&ctx),
        "total" => monitors::total::run(&ctx),
        "xconfig" => monitors::xconfig::run(&ctx),
        "convert" => monitors::kat::run_convert(&ctx),
        "bcrypt" => monitors::bcrypt::run(&ctx),
        "history" => monitors::history::run_history(&ctx),
        "threads" => monitors::history::run_threads(&ctx),
        "firstuse" => monitors::history::run_firstuse(&ctx),
        "firstuse-child" => std::process::exit(monitors::history::firstuse_child(&args)),
        "dump-names" => {
            for t in registry::types() {
                let k = vec![0x42u8; if (t.accepts)(t.key_size) { t.key_size } else { (0..400).find(|l| (t.accepts)(*l)).unwrap_or(0) }];
                let d = t.debug.and_then(|f| std::panic::catch_unwind(|| f(&k)).ok().flatten());
                println!("{}\t{:?}\t{:?}", t.name, d, t.alg_name.map(|f| f()));
            }
            return;
        }
        "noop" => return,
        "list" => {
            for e in registry::entries() {
                println!("{}\t{}\t{}\t{:?}", e.id(), e.family, e.prop, e.key_lens);
            }
            for t in registry::types() {
                println!("TYPE {}\t{}\t{}", t.name, t.ident, t.key_size);
            }
            return;
        }
        other => {
            eprintln!("unknown monitor {}", other);
            std::process::exit(2);
        }
    };
    let wall = t0.elapsed().as_secs_f64();
    let status = if !rep.violations.is_empty() {
        "violated"
    } else if !rep.inconclusive.is_empty() {
        "inconclusive"
    } else {
        "ok"
    };
    let j = rep.to_json(vec![
        ("cfg", J::s(&ctx.cfg)),
        ("detect", J::s(if ctx.detect_off { "off" } else { "real" })),
        ("seed", J::I(ctx.seed as i64)),
        ("shard", J::I(ctx.shard as i64)),
        ("nshards", J::I(ctx.nshards as i64)),
        ("tier", J::s(if ctx.tier == Tier::Quick { "quick" } else { "thorough" })),
        ("scale", J::F(ctx.scale)),
        ("wall_s", J::F(wall)),
        ("status", J::s(status)),
        ("miri", J::B(cfg!(miri))),
        ("debug_assertions", J::B(cfg!(debug_assertions))),
        ("detect_calls", J::I(detect_calls())),
        ("argv", J::A(args.iter().map(J::s).collect())),
    ]);
    let text = j.to_string();
    match arg(&args, "--out") {
        Some(p) => std::fs::write(&p, &text).expect("write report"),
        None => println!("{}", text),
    }
    eprintln!(
        "[bcmon {} cfg={} shard={}/{}] evaluations={} distinct_random={} violations={} status={} wall={:.1}s",
        monitor,
        ctx.cfg,
        ctx.shard,
        ctx.nshards,
        rep.evaluations,
        rep.random_hashes.len(),
        rep.violations.len(),
        status,
        wall
    );
    std::process::exit(match status {
        "ok" => 0,
        "violated" => 1,
        _ => 2,
    });
}
