//! Reference model of RC2 (RFC 2268, R. Rivest, "A Description of the RC2(r) Encryption
//! Algorithm", March 1998). Written from the RFC: key expansion of section 2 (byte view L[],
//! word view K[]), encryption of section 3 and decryption of section 4, each as the literal
//! "mix up R[i]" / "mash R[i]" primitive operations.
//!
//! Block = four 16-bit words R[0..3], each stored little-endian (RFC 2268 sec. 1/5); key of
//! T = 1..=128 bytes, effective key length T1 = 1..=1024 bits.

/// PITABLE of RFC 2268 section 2, in the RFC's 16x16 row layout ("random" permutation of
/// 0..255 based on the digits of pi).
const PITABLE: [u8; 256] = [
    0xd9, 0x78, 0xf9, 0xc4, 0x19, 0xdd, 0xb5, 0xed, 0x28, 0xe9, 0xfd, 0x79, 0x4a, 0xa0, 0xd8, 0x9d,
    0xc6, 0x7e, 0x37, 0x83, 0x2b, 0x76, 0x53, 0x8e, 0x62, 0x4c, 0x64, 0x88, 0x44, 0x8b, 0xfb, 0xa2,
    0x17, 0x9a, 0x59, 0xf5, 0x87, 0xb3, 0x4f, 0x13, 0x61, 0x45, 0x6d, 0x8d, 0x09, 0x81, 0x7d, 0x32,
    0xbd, 0x8f, 0x40, 0xeb, 0x86, 0xb7, 0x7b, 0x0b, 0xf0, 0x95, 0x21, 0x22, 0x5c, 0x6b, 0x4e, 0x82,
    0x54, 0xd6, 0x65, 0x93, 0xce, 0x60, 0xb2, 0x1c, 0x73, 0x56, 0xc0, 0x14, 0xa7, 0x8c, 0xf1, 0xdc,
    0x12, 0x75, 0xca, 0x1f, 0x3b, 0xbe, 0xe4, 0xd1, 0x42, 0x3d, 0xd4, 0x30, 0xa3, 0x3c, 0xb6, 0x26,
    0x6f, 0xbf, 0x0e, 0xda, 0x46, 0x69, 0x07, 0x57, 0x27, 0xf2, 0x1d, 0x9b, 0xbc, 0x94, 0x43, 0x03,
    0xf8, 0x11, 0xc7, 0xf6, 0x90, 0xef, 0x3e, 0xe7, 0x06, 0xc3, 0xd5, 0x2f, 0xc8, 0x66, 0x1e, 0xd7,
    0x08, 0xe8, 0xea, 0xde, 0x80, 0x52, 0xee, 0xf7, 0x84, 0xaa, 0x72, 0xac, 0x35, 0x4d, 0x6a, 0x2a,
    0x96, 0x1a, 0xd2, 0x71, 0x5a, 0x15, 0x49, 0x74, 0x4b, 0x9f, 0xd0, 0x5e, 0x04, 0x18, 0xa4, 0xec,
    0xc2, 0xe0, 0x41, 0x6e, 0x0f, 0x51, 0xcb, 0xcc, 0x24, 0x91, 0xaf, 0x50, 0xa1, 0xf4, 0x70, 0x39,
    0x99, 0x7c, 0x3a, 0x85, 0x23, 0xb8, 0xb4, 0x7a, 0xfc, 0x02, 0x36, 0x5b, 0x25, 0x55, 0x97, 0x31,
    0x2d, 0x5d, 0xfa, 0x98, 0xe3, 0x8a, 0x92, 0xae, 0x05, 0xdf, 0x29, 0x10, 0x67, 0x6c, 0xba, 0xc9,
    0xd3, 0x00, 0xe6, 0xcf, 0xe1, 0x9e, 0xa8, 0x2c, 0x63, 0x16, 0x01, 0x3f, 0x58, 0xe2, 0x89, 0xa9,
    0x0d, 0x38, 0x34, 0x1b, 0xab, 0x33, 0xff, 0xb0, 0xbb, 0x48, 0x0c, 0x5f, 0xb9, 0xb1, 0xcd, 0x2e,
    0xc5, 0xf3, 0xdb, 0x47, 0xe5, 0xa5, 0x9c, 0x77, 0x0a, 0xa6, 0x20, 0x68, 0xfe, 0x7f, 0xc1, 0xad,
];

/// Rotation amounts s[0..3] of the mixing step.
const S: [u32; 4] = [1, 2, 3, 5];

#[derive(Clone)]
pub struct Rc2 {
    /// Expanded key K[0..63].
    pub k: [u16; 64],
}

impl Rc2 {
    pub const BLOCK: usize = 8;

    /// Key of 1..=128 bytes, effective key length = 8 * len bits.
    pub fn new(key: &[u8]) -> Option<Self> {
        Self::new_with_eff_bits(key, 8 * key.len())
    }

    /// Key of T = 1..=128 bytes, effective key length T1 = `bits` in 1..=1024.
    pub fn new_with_eff_bits(key: &[u8], bits: usize) -> Option<Self> {
        let t = key.len();
        if t < 1 || t > 128 || bits < 1 || bits > 1024 {
            return None;
        }
        let t1 = bits;
        let t8 = (t1 + 7) / 8;
        // TM = 255 MOD 2^(8 + T1 - 8*T8); the exponent is in 1..=8.
        let tm = (255u32 % (1u32 << (8 + t1 - 8 * t8))) as u8;

        let mut l = [0u8; 128];
        l[..t].copy_from_slice(key);
        for i in t..128 {
            l[i] = PITABLE[(l[i - 1] as usize + l[i - t] as usize) % 256];
        }
        l[128 - t8] = PITABLE[(l[128 - t8] & tm) as usize];
        for i in (0..128 - t8).rev() {
            l[i] = PITABLE[(l[i + 1] ^ l[i + t8]) as usize];
        }
        let mut k = [0u16; 64];
        for i in 0..64 {
            k[i] = u16::from(l[2 * i]) + 256 * u16::from(l[2 * i + 1]);
        }
        Some(Rc2 { k })
    }

    pub fn encrypt(&self, block: &mut [u8]) {
        assert_eq!(block.len(), Self::BLOCK);
        let mut r = load(block);
        let mut j = 0usize;
        // "Mix up R[i]"
        let mix = |r: &mut [u16; 4], i: usize, j: &mut usize| {
            r[i] = r[i]
                .wrapping_add(self.k[*j])
                .wrapping_add(r[(i + 3) % 4] & r[(i + 2) % 4])
                .wrapping_add(!r[(i + 3) % 4] & r[(i + 1) % 4]);
            *j += 1;
            r[i] = r[i].rotate_left(S[i]);
        };
        // "Mash R[i]"
        let mash = |r: &mut [u16; 4], i: usize| {
            r[i] = r[i].wrapping_add(self.k[(r[(i + 3) % 4] & 63) as usize]);
        };
        let mixing_round = |r: &mut [u16; 4], j: &mut usize| {
            for i in 0..4 {
                mix(r, i, j);
            }
        };
        let mashing_round = |r: &mut [u16; 4]| {
            for i in 0..4 {
                mash(r, i);
            }
        };
        for _ in 0..5 {
            mixing_round(&mut r, &mut j);
        }
        mashing_round(&mut r);
        for _ in 0..6 {
            mixing_round(&mut r, &mut j);
        }
        mashing_round(&mut r);
        for _ in 0..5 {
            mixing_round(&mut r, &mut j);
        }
        assert_eq!(j, 64);
        store(&r, block);
    }

    pub fn decrypt(&self, block: &mut [u8]) {
        assert_eq!(block.len(), Self::BLOCK);
        let mut r = load(block);
        let mut j = 63isize;
        // "R-Mix up R[i]"
        let rmix = |r: &mut [u16; 4], i: usize, j: &mut isize| {
            r[i] = r[i].rotate_right(S[i]);
            r[i] = r[i]
                .wrapping_sub(self.k[*j as usize])
                .wrapping_sub(r[(i + 3) % 4] & r[(i + 2) % 4])
                .wrapping_sub(!r[(i + 3) % 4] & r[(i + 1) % 4]);
            *j -= 1;
        };
        // "R-Mash R[i]"
        let rmash = |r: &mut [u16; 4], i: usize| {
            r[i] = r[i].wrapping_sub(self.k[(r[(i + 3) % 4] & 63) as usize]);
        };
        let rmixing_round = |r: &mut [u16; 4], j: &mut isize| {
            for i in (0..4).rev() {
                rmix(r, i, j);
            }
        };
        let rmashing_round = |r: &mut [u16; 4]| {
            for i in (0..4).rev() {
                rmash(r, i);
            }
        };
        for _ in 0..5 {
            rmixing_round(&mut r, &mut j);
        }
        rmashing_round(&mut r);
        for _ in 0..6 {
            rmixing_round(&mut r, &mut j);
        }
        rmashing_round(&mut r);
        for _ in 0..5 {
            rmixing_round(&mut r, &mut j);
        }
        assert_eq!(j, -1);
        store(&r, block);
    }
}

fn load(block: &[u8]) -> [u16; 4] {
    let mut r = [0u16; 4];
    for i in 0..4 {
        r[i] = u16::from(block[2 * i]) + 256 * u16::from(block[2 * i + 1]);
    }
    r
}

fn store(r: &[u16; 4], block: &mut [u8]) {
    for i in 0..4 {
        block[2 * i] = (r[i] & 0xff) as u8;
        block[2 * i + 1] = (r[i] >> 8) as u8;
    }
}

#[cfg(test)]
mod tests {
    use super::*;

    fn hx(s: &str) -> Vec<u8> {
        (0..s.len() / 2).map(|i| u8::from_str_radix(&s[2 * i..2 * i + 2], 16).unwrap()).collect()
    }

    #[test]
    fn pitable_is_a_permutation() {
        let mut seen = [false; 256];
        for &v in PITABLE.iter() {
            assert!(!seen[v as usize]);
            seen[v as usize] = true;
        }
    }

    /// All eight test vectors of RFC 2268 section 5: (key, effective bits, plaintext, ciphertext).
    #[test]
    fn rfc2268_vectors() {
        let v: [(&str, usize, &str, &str); 8] = [
            ("0000000000000000", 63, "0000000000000000", "ebb773f993278eff"),
            ("ffffffffffffffff", 64, "ffffffffffffffff", "278b27e42e2f0d49"),
            ("3000000000000000", 64, "1000000000000001", "30649edf9be7d2c2"),
            ("88", 64, "0000000000000000", "61a8a244adacccf0"),
            ("88bca90e90875a", 64, "0000000000000000", "6ccf4308974c267f"),
            ("88bca90e90875a7f0f79c384627bafb2", 64, "0000000000000000", "1a807d272bbe5db1"),
            ("88bca90e90875a7f0f79c384627bafb2", 128, "0000000000000000", "2269552ab0f85ca6"),
            (
                "88bca90e90875a7f0f79c384627bafb216f80a6f85920584c42fceb0be255daf1e",
                129,
                "0000000000000000",
                "5b78d3a43dfff1f1",
            ),
        ];
        for (k, bits, p, c) in v {
            let rc2 = Rc2::new_with_eff_bits(&hx(k), bits).unwrap();
            let mut b = hx(p);
            rc2.encrypt(&mut b);
            assert_eq!(b, hx(c), "key {k} bits {bits}");
            rc2.decrypt(&mut b);
            assert_eq!(b, hx(p), "key {k} bits {bits}");
        }
        // vector 7 has bits = 8 * len, so `new` must give the same cipher
        let rc2 = Rc2::new(&hx("88bca90e90875a7f0f79c384627bafb2")).unwrap();
        let mut b = [0u8; 8];
        rc2.encrypt(&mut b);
        assert_eq!(b.to_vec(), hx("2269552ab0f85ca6"));
    }

    #[test]
    fn parameter_limits() {
        assert!(Rc2::new(&[]).is_none());
        assert!(Rc2::new(&[0u8; 128]).is_some());
        assert!(Rc2::new(&[0u8; 129]).is_none());
        assert!(Rc2::new_with_eff_bits(&[0u8; 8], 0).is_none());
        assert!(Rc2::new_with_eff_bits(&[0u8; 8], 1).is_some());
        assert!(Rc2::new_with_eff_bits(&[0u8; 8], 1024).is_some());
        assert!(Rc2::new_with_eff_bits(&[0u8; 8], 1025).is_none());
    }
}
