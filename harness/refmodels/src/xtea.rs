//! Reference model of XTEA (R. Needham, D. Wheeler, "Tea extensions", Cambridge Computer
//! Laboratory technical report, October 1997), following the reference C routine of the report:
//!
//! ```text
//! while (n-- > 0) {            /* n = 32 cycles = 64 Feistel rounds */
//!     y   += (z << 4 ^ z >> 5) + z ^ sum + k[sum & 3];
//!     sum += DELTA;
//!     z   += (y << 4 ^ y >> 5) + y ^ sum + k[sum >> 11 & 3];
//! }
//! ```
//!
//! (C precedence: `((z<<4 ^ z>>5) + z) ^ (sum + k[..])`.) Convention (DESIGN.md Appendix A):
//! the block is two little-endian u32 (y = v[0] first), the key four little-endian u32.

const DELTA: u32 = 0x9E37_79B9;
const CYCLES: u32 = 32;

#[derive(Clone)]
pub struct Xtea {
    pub k: [u32; 4],
}

impl Xtea {
    pub const BLOCK: usize = 8;

    pub fn new(key: &[u8]) -> Option<Self> {
        if key.len() != 16 {
            return None;
        }
        let mut k = [0u32; 4];
        for i in 0..4 {
            k[i] = u32::from_le_bytes([key[4 * i], key[4 * i + 1], key[4 * i + 2], key[4 * i + 3]]);
        }
        Some(Xtea { k })
    }

    /// The reference routine on words.
    pub fn encipher(&self, v: [u32; 2]) -> [u32; 2] {
        let (mut y, mut z) = (v[0], v[1]);
        let mut sum: u32 = 0;
        for _ in 0..CYCLES {
            y = y.wrapping_add(
                (((z << 4) ^ (z >> 5)).wrapping_add(z)) ^ sum.wrapping_add(self.k[(sum & 3) as usize]),
            );
            sum = sum.wrapping_add(DELTA);
            z = z.wrapping_add(
                (((y << 4) ^ (y >> 5)).wrapping_add(y)) ^ sum.wrapping_add(self.k[((sum >> 11) & 3) as usize]),
            );
        }
        [y, z]
    }

    pub fn decipher(&self, v: [u32; 2]) -> [u32; 2] {
        let (mut y, mut z) = (v[0], v[1]);
        let mut sum: u32 = DELTA.wrapping_mul(CYCLES);
        for _ in 0..CYCLES {
            z = z.wrapping_sub(
                (((y << 4) ^ (y >> 5)).wrapping_add(y)) ^ sum.wrapping_add(self.k[((sum >> 11) & 3) as usize]),
            );
            sum = sum.wrapping_sub(DELTA);
            y = y.wrapping_sub(
                (((z << 4) ^ (z >> 5)).wrapping_add(z)) ^ sum.wrapping_add(self.k[(sum & 3) as usize]),
            );
        }
        [y, z]
    }

    pub fn encrypt(&self, block: &mut [u8]) {
        assert_eq!(block.len(), Self::BLOCK);
        let y = u32::from_le_bytes([block[0], block[1], block[2], block[3]]);
        let z = u32::from_le_bytes([block[4], block[5], block[6], block[7]]);
        let [y, z] = self.encipher([y, z]);
        block[..4].copy_from_slice(&y.to_le_bytes());
        block[4..].copy_from_slice(&z.to_le_bytes());
    }

    pub fn decrypt(&self, block: &mut [u8]) {
        assert_eq!(block.len(), Self::BLOCK);
        let y = u32::from_le_bytes([block[0], block[1], block[2], block[3]]);
        let z = u32::from_le_bytes([block[4], block[5], block[6], block[7]]);
        let [y, z] = self.decipher([y, z]);
        block[..4].copy_from_slice(&y.to_le_bytes());
        block[4..].copy_from_slice(&z.to_le_bytes());
    }
}

#[cfg(test)]
mod tests {
    use super::*;

    fn hx(s: &str) -> Vec<u8> {
        (0..s.len() / 2).map(|i| u8::from_str_radix(&s[2 * i..2 * i + 2], 16).unwrap()).collect()
    }

    /// Reverse the bytes inside every 32-bit word (big-endian vector -> this model's
    /// little-endian convention).
    fn swap32(b: &[u8]) -> Vec<u8> {
        b.chunks(4).flat_map(|w| w.iter().rev().copied().collect::<Vec<u8>>()).collect()
    }

    /// Vector used by /repo/xtea/tests/mod.rs, taken there from
    /// https://asecuritysite.com/encryption/xtea (little-endian convention, as is).
    #[test]
    fn asecuritysite_vector() {
        let x = Xtea::new(b"0123456789012345").unwrap();
        let mut b = *b"ABCDEFGH";
        x.encrypt(&mut b);
        assert_eq!(b, [0xea, 0x0c, 0x3d, 0x7c, 0x1c, 0x22, 0x55, 0x7f]);
        x.decrypt(&mut b);
        assert_eq!(&b, b"ABCDEFGH");
    }

    /// Bouncy Castle `XTEATest` vectors (org.bouncycastle.crypto.test.XTEATest). Bouncy Castle
    /// serialises words big-endian, so key, plaintext and ciphertext are word-byte-swapped to
    /// this model's little-endian convention; the word values are those of the vectors.
    #[test]
    fn bouncy_castle_vectors_word_swapped() {
        let v = [
            ("00000000000000000000000000000000", "0000000000000000", "dee9d4d8f7131ed9"),
            ("00000000000000000000000000000000", "0102030405060708", "065c1b8975c6a816"),
            ("0123456712345678234567893456789a", "0000000000000000", "1ff9a0261ac64264"),
            ("0123456712345678234567893456789a", "0102030405060708", "8c67155b2ef91ead"),
        ];
        for (k, p, c) in v {
            let x = Xtea::new(&swap32(&hx(k))).unwrap();
            let mut b = swap32(&hx(p));
            x.encrypt(&mut b);
            assert_eq!(swap32(&b), hx(c), "key {k} pt {p}");
            x.decrypt(&mut b);
            assert_eq!(swap32(&b), hx(p));
        }
    }

    /// Widely circulated big-endian XTEA vectors (e.g. the test suites of FFmpeg libavutil
    /// `xtea.c` and of several crypto libraries), word-byte-swapped as above.
    #[test]
    fn big_endian_vectors_word_swapped() {
        let v = [
            ("000102030405060708090a0b0c0d0e0f", "4142434445464748", "497df3d072612cb5"),
            ("000102030405060708090a0b0c0d0e0f", "4141414141414141", "e78f2d13744341d8"),
            ("000102030405060708090a0b0c0d0e0f", "5a5b6e278948d77f", "4141414141414141"),
            ("00000000000000000000000000000000", "4142434445464748", "a0390589f8b8efa5"),
            ("00000000000000000000000000000000", "4141414141414141", "ed23375a821a8c2d"),
            ("00000000000000000000000000000000", "70e1225d6e4e7655", "4141414141414141"),
        ];
        for (k, p, c) in v {
            let x = Xtea::new(&swap32(&hx(k))).unwrap();
            let mut b = swap32(&hx(p));
            x.encrypt(&mut b);
            assert_eq!(swap32(&b), hx(c), "key {k} pt {p}");
            x.decrypt(&mut b);
            assert_eq!(swap32(&b), hx(p));
        }
    }

    #[test]
    fn key_length() {
        assert!(Xtea::new(&[0u8; 15]).is_none());
        assert!(Xtea::new(&[0u8; 17]).is_none());
    }
}
