//! Reference models: independent, specification-literal implementations used as oracles.
//! See AUTHORING.md for the rules they were written under.
#![forbid(unsafe_code)]

pub mod aes;
pub mod aria;
pub mod belt;
pub mod blowfish;
pub mod camellia;
pub mod cast5;
pub mod cast6;
pub mod cast_sboxes;
pub mod des;
pub mod gift128;
pub mod gost89;
pub mod idea;
pub mod kuznyechik;
pub mod pi_hex;
pub mod rc2;
pub mod rc5;
pub mod serpent;
pub mod sm4;
pub mod speck;
pub mod threefish;
pub mod twofish;
pub mod xtea;

/// Uniform view of a keyed reference cipher.
pub trait RefCipher: Send + Sync {
    fn block(&self) -> usize;
    fn encrypt(&self, b: &mut [u8]);
    fn decrypt(&self, b: &mut [u8]);
}

macro_rules! simple_ref {
    ($($t:ty),*) => {$(
        impl RefCipher for $t {
            fn block(&self) -> usize {
                <$t>::BLOCK
            }
            fn encrypt(&self, b: &mut [u8]) {
                <$t>::encrypt(self, b)
            }
            fn decrypt(&self, b: &mut [u8]) {
                <$t>::decrypt(self, b)
            }
        }
    )*};
}
simple_ref!(blowfish::Blowfish, rc2::Rc2, xtea::Xtea, belt::Belt, gift128::Gift128, gost89::Gost89, kuznyechik::Kuznyechik, aes::Aes, aria::Aria, camellia::Camellia, cast5::Cast5, cast6::Cast6, des::Des, des::Tdes, idea::Idea, serpent::Serpent, sm4::Sm4, twofish::Twofish);

macro_rules! len_ref {
    ($($t:ty),*) => {$(
        impl RefCipher for $t {
            fn block(&self) -> usize {
                self.block_len()
            }
            fn encrypt(&self, b: &mut [u8]) {
                <$t>::encrypt(self, b)
            }
            fn decrypt(&self, b: &mut [u8]) {
                <$t>::decrypt(self, b)
            }
        }
    )*};
}
len_ref!(rc5::Rc5, speck::Speck, threefish::Threefish);

/// Blowfish with each 32-bit half read and written little-endian (`BlowfishLE`).
pub struct BlowfishLe(pub blowfish::Blowfish);
impl RefCipher for BlowfishLe {
    fn block(&self) -> usize {
        8
    }
    fn encrypt(&self, b: &mut [u8]) {
        self.0.encrypt_le(b)
    }
    fn decrypt(&self, b: &mut [u8]) {
        self.0.decrypt_le(b)
    }
}
