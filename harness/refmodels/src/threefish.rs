//! Threefish-256/512/1024 reference model, written from "The Skein Hash Function Family",
//! version 1.3 (Ferguson, Lucks, Schneier, Whiting, Bellare, Kohno, Callas, Walker), section 3.3.
//!
//! * Nw = 4, 8, 16 words of 64 bits; Nr = 72 rounds (80 for Nw = 16).
//! * Round d: e_{d,i} = v_{d,i} + k_{d/4,i} when d mod 4 == 0, else v_{d,i};
//!   (f_{d,2j}, f_{d,2j+1}) = MIX_{d,j}(e_{d,2j}, e_{d,2j+1});  v_{d+1,i} = f_{d,pi(i)}.
//!   Output c_i = v_{Nr,i} + k_{Nr/4,i}.
//! * MIX_{d,j}(x0,x1): y0 = x0 + x1;  y1 = (x1 <<< R_{d mod 8, j}) xor y0.
//! * Key schedule: k_Nw = C240 xor k_0 xor ... xor k_{Nw-1};  t_2 = t_0 xor t_1;
//!   k_{s,i} = k_{(s+i) mod (Nw+1)}                       i = 0 .. Nw-4
//!           = k_{(s+i) mod (Nw+1)} + t_{s mod 3}          i = Nw-3
//!           = k_{(s+i) mod (Nw+1)} + t_{(s+1) mod 3}      i = Nw-2
//!           = k_{(s+i) mod (Nw+1)} + s                    i = Nw-1
//!
//! Byte conventions: all words little-endian (Skein's ToInt/ToBytes); tweak = two LE u64.

/// C240 (Skein 1.3, section 3.3.2)
const C240: u64 = 0x1BD11BDAA9FC1A22;

/// Table 3 of the Skein 1.3 paper: the word permutations pi(i).
const PI_4: [usize; 4] = [0, 3, 2, 1];
const PI_8: [usize; 8] = [2, 1, 4, 7, 6, 5, 0, 3];
const PI_16: [usize; 16] = [0, 9, 2, 13, 6, 11, 4, 15, 10, 7, 12, 3, 14, 5, 8, 1];

/// Table 4 of the Skein 1.3 paper: rotation constants R_{d,j}, row d = 0..7, column j.
const R_4: [[u32; 2]; 8] = [
    [14, 16],
    [52, 57],
    [23, 40],
    [5, 37],
    [25, 33],
    [46, 12],
    [58, 22],
    [32, 32],
];
const R_8: [[u32; 4]; 8] = [
    [46, 36, 19, 37],
    [33, 27, 14, 42],
    [17, 49, 36, 39],
    [44, 9, 54, 56],
    [39, 30, 34, 24],
    [13, 50, 10, 17],
    [25, 29, 39, 43],
    [8, 35, 56, 22],
];
const R_16: [[u32; 8]; 8] = [
    [24, 13, 8, 47, 8, 17, 22, 37],
    [38, 19, 10, 55, 49, 18, 23, 52],
    [33, 4, 51, 13, 34, 41, 59, 17],
    [5, 20, 48, 41, 47, 28, 16, 25],
    [41, 9, 37, 31, 12, 47, 44, 30],
    [16, 34, 56, 51, 4, 53, 42, 41],
    [31, 44, 47, 46, 19, 42, 44, 25],
    [9, 48, 35, 52, 23, 31, 37, 20],
];

pub struct Threefish {
    nw: usize,
    nr: usize,
    /// subkeys k_{s,i}, s = 0 ..= Nr/4
    subkeys: Vec<Vec<u64>>,
}

impl Threefish {
    /// `key.len()` in {32, 64, 128} (= block length).
    pub fn new(key: &[u8], tweak: &[u8; 16]) -> Option<Self> {
        if ![32, 64, 128].contains(&key.len()) {
            return None;
        }
        let kw: Vec<u64> = key.chunks(8).map(le64).collect();
        let t = [le64(&tweak[..8]), le64(&tweak[8..])];
        Self::new_words(&kw, t)
    }

    /// `key.len()` in {4, 8, 16} words.
    pub fn new_words(key: &[u64], tweak: [u64; 2]) -> Option<Self> {
        let nw = key.len();
        let nr = match nw {
            4 | 8 => 72,
            16 => 80,
            _ => return None,
        };
        let mut k: Vec<u64> = key.to_vec();
        let mut knw = C240;
        for &w in key {
            knw ^= w;
        }
        k.push(knw);
        let t = [tweak[0], tweak[1], tweak[0] ^ tweak[1]];
        let mut subkeys = Vec::new();
        for s in 0..=nr / 4 {
            let mut sk = vec![0u64; nw];
            for i in 0..nw {
                let base = k[(s + i) % (nw + 1)];
                sk[i] = if i + 3 == nw {
                    base.wrapping_add(t[s % 3])
                } else if i + 2 == nw {
                    base.wrapping_add(t[(s + 1) % 3])
                } else if i + 1 == nw {
                    base.wrapping_add(s as u64)
                } else {
                    base
                };
            }
            subkeys.push(sk);
        }
        Some(Threefish { nw, nr, subkeys })
    }

    /// Block length in bytes.
    pub fn block_len(&self) -> usize {
        self.nw * 8
    }

    fn pi(&self, i: usize) -> usize {
        match self.nw {
            4 => PI_4[i],
            8 => PI_8[i],
            _ => PI_16[i],
        }
    }
    fn rot(&self, d: usize, j: usize) -> u32 {
        match self.nw {
            4 => R_4[d % 8][j],
            8 => R_8[d % 8][j],
            _ => R_16[d % 8][j],
        }
    }

    pub fn encrypt_words(&self, block: &mut [u64]) {
        assert_eq!(block.len(), self.nw);
        let nw = self.nw;
        let mut v: Vec<u64> = block.to_vec();
        for d in 0..self.nr {
            // e
            let mut e = v.clone();
            if d % 4 == 0 {
                for i in 0..nw {
                    e[i] = v[i].wrapping_add(self.subkeys[d / 4][i]);
                }
            }
            // f
            let mut f = vec![0u64; nw];
            for j in 0..nw / 2 {
                let (x0, x1) = (e[2 * j], e[2 * j + 1]);
                let y0 = x0.wrapping_add(x1);
                let y1 = x1.rotate_left(self.rot(d, j)) ^ y0;
                f[2 * j] = y0;
                f[2 * j + 1] = y1;
            }
            // v_{d+1,i} = f_{d,pi(i)}
            for i in 0..nw {
                v[i] = f[self.pi(i)];
            }
        }
        for i in 0..nw {
            block[i] = v[i].wrapping_add(self.subkeys[self.nr / 4][i]);
        }
    }

    pub fn decrypt_words(&self, block: &mut [u64]) {
        assert_eq!(block.len(), self.nw);
        let nw = self.nw;
        let mut v: Vec<u64> = (0..nw)
            .map(|i| block[i].wrapping_sub(self.subkeys[self.nr / 4][i]))
            .collect();
        for d in (0..self.nr).rev() {
            // undo the permutation: f_{d,pi(i)} = v_{d+1,i}
            let mut f = vec![0u64; nw];
            for i in 0..nw {
                f[self.pi(i)] = v[i];
            }
            // undo MIX
            let mut e = vec![0u64; nw];
            for j in 0..nw / 2 {
                let (y0, y1) = (f[2 * j], f[2 * j + 1]);
                let x1 = (y1 ^ y0).rotate_right(self.rot(d, j));
                let x0 = y0.wrapping_sub(x1);
                e[2 * j] = x0;
                e[2 * j + 1] = x1;
            }
            // undo subkey addition
            if d % 4 == 0 {
                for i in 0..nw {
                    e[i] = e[i].wrapping_sub(self.subkeys[d / 4][i]);
                }
            }
            v = e;
        }
        block.copy_from_slice(&v);
    }

    pub fn encrypt(&self, block: &mut [u8]) {
        assert_eq!(block.len(), self.block_len());
        let mut w: Vec<u64> = block.chunks(8).map(le64).collect();
        self.encrypt_words(&mut w);
        for (c, x) in block.chunks_mut(8).zip(w.iter()) {
            c.copy_from_slice(&x.to_le_bytes());
        }
    }

    pub fn decrypt(&self, block: &mut [u8]) {
        assert_eq!(block.len(), self.block_len());
        let mut w: Vec<u64> = block.chunks(8).map(le64).collect();
        self.decrypt_words(&mut w);
        for (c, x) in block.chunks_mut(8).zip(w.iter()) {
            c.copy_from_slice(&x.to_le_bytes());
        }
    }
}

fn le64(b: &[u8]) -> u64 {
    let mut x = 0u64;
    for i in 0..8 {
        x |= (b[i] as u64) << (8 * i);
    }
    x
}

#[cfg(test)]
mod tests {
    use super::*;

    fn hex(s: &str) -> Vec<u8> {
        let s: String = s.chars().filter(|c| !c.is_whitespace()).collect();
        (0..s.len() / 2)
            .map(|i| u8::from_str_radix(&s[2 * i..2 * i + 2], 16).unwrap())
            .collect()
    }

    fn check(key: &[u8], tweak: &[u8], pt: &[u8], ct: &[u8]) {
        let mut tw = [0u8; 16];
        tw.copy_from_slice(tweak);
        let c = Threefish::new(key, &tw).unwrap();
        let mut b = pt.to_vec();
        c.encrypt(&mut b);
        assert_eq!(b, ct);
        c.decrypt(&mut b);
        assert_eq!(b, pt);
    }

    fn seq(start: u8, n: usize) -> Vec<u8> {
        (0..n).map(|i| start.wrapping_add(i as u8)).collect()
    }
    fn seq_down(start: u8, n: usize) -> Vec<u8> {
        (0..n).map(|i| start.wrapping_sub(i as u8)).collect()
    }

    // Vectors: Skein 1.3 reference package KATs for the raw Threefish block function, as
    // collected in Crypto++ TestVectors/threefish.txt (the set in /repo/threefish/tests/mod.rs).
    // "sequential" vectors: key = 10 11 12 ..., tweak = 00 01 .. 0F, plaintext = FF FE FD ...

    #[test]
    fn threefish_256() {
        check(
            &[0; 32],
            &[0; 16],
            &[0; 32],
            &hex("84DA2A1F8BEAEE94 7066AE3E3103F1AD 536DB1F4A1192495 116B9F3CE6133FD8"),
        );
        check(
            &seq(0x10, 32),
            &seq(0, 16),
            &seq_down(0xFF, 32),
            &hex("E0D091FF0EEA8FDF C98192E62ED80AD5 9D865D08588DF476 657056B5955E97DF"),
        );
    }

    #[test]
    fn threefish_512() {
        let c0 = hex(
            "B1A2BBC6EF6025BC 40EB3822161F36E3 75D1BB0AEE3186FB D19E47C5D479947B
             7BC2F8586E35F0CF F7E7F03084B0B7B1 F1AB3961A580A3E9 7EB41EA14A6D7BBE",
        );
        let c1 = hex(
            "F13CA06760DD9BBE AB87B6C56F3BBBDB E9D08A77978B942A C02D471DC10268F2
             261C3D4330D6CA34 1F4BD4115DEE16A2 1DCDA2A34A0A76FB A976174E4CF1E306",
        );
        check(&[0; 64], &[0; 16], &[0; 64], &c0);
        check(&c0, &[0; 16], &[0; 64], &c1);
        check(
            &c1,
            &[0; 16],
            &c0,
            &hex(
                "1BEC82CBA1357566 B34E1CF1FBF123A1 41C8F4089F6E4CE3 209AEA10095AEC93
                 C900D068BDC7F7A2 DD58513C11DEC956 B93169B1C4F24CED E31A265DE83E36B4",
            ),
        );
        let mut c0b = c0.clone();
        c0b[63] = 0xBF;
        check(
            &c1,
            &[0; 16],
            &c0b,
            &hex(
                "073CB5F8FABFA17D B751477F294EB3DD 4ACD92B78397331F CC36A9C3D3055B81
                 D867CBDD56279037 373359CA1832669A F4B87A1F2FDAF8D3 6E2FB7A6D19F5D45",
            ),
        );
        check(
            &seq(0x10, 64),
            &seq(0, 16),
            &seq_down(0xFF, 64),
            &hex(
                "E304439626D45A2C B401CAD8D636249A 6338330EB06D45DD 8B36B90E97254779
                 272A0A8D99463504 784420EA18C9A725 AF11DFFEA1016234 8927673D5C1CAF3D",
            ),
        );
    }

    #[test]
    fn threefish_1024() {
        check(
            &[0; 128],
            &[0; 16],
            &[0; 128],
            &hex(
                "F05C3D0A3D05B304 F785DDC7D1E03601 5C8AA76E2F217B06 C6E1544C0BC1A90D
                 F0ACCB9473C24E0F D54FEA68057F4332 9CB454761D6DF5CF 7B2E9B3614FBD5A2
                 0B2E4760B4060354 0D82EABC5482C171 C832AFBE68406BC3 9500367A592943FA
                 9A5B4A43286CA3C4 CF46104B443143D5 60A4B230488311DF 4FEEF7E1DFE8391E",
            ),
        );
        check(
            &seq(0x10, 128),
            &seq(0, 16),
            &seq_down(0xFF, 128),
            &hex(
                "A6654DDBD73CC3B0 5DD777105AA849BC E49372EAAFFC5568 D254771BAB85531C
                 94F780E7FFAAE430 D5D8AF8C70EEBBE1 760F3B42B737A89C B363490D670314BD
                 8AA41EE63C2E1F45 FBD477922F8360B3 88D6125EA6C7AF0A D7056D01796E90C8
                 3313F4150A5716B3 0ED5F569288AE974 CE2B4347926FCE57 DE44512177DD7CDE",
            ),
        );
    }

    #[test]
    fn words_api_matches_bytes_api() {
        let key = seq(0x10, 64);
        let c = Threefish::new(&key, &[7; 16]).unwrap();
        let kw: Vec<u64> = key.chunks(8).map(le64).collect();
        let c2 = Threefish::new_words(&kw, [0x0707070707070707; 2]).unwrap();
        let mut b = seq(3, 64);
        let mut w: Vec<u64> = b.chunks(8).map(le64).collect();
        c.encrypt(&mut b);
        c2.encrypt_words(&mut w);
        let wb: Vec<u8> = w.iter().flat_map(|x| x.to_le_bytes()).collect();
        assert_eq!(b, wb);
        assert!(Threefish::new(&[0; 48], &[0; 16]).is_none());
    }
}
