//! Reference model of AES (FIPS-197), written from the standard in its most literal form.
//!
//! * State: 16 bytes in FIPS-197 order, `state[4*c + r]` = s[r][c] (section 3.4: the input
//!   bytes fill the state column by column).
//! * S-box / inverse S-box are computed (section 5.1.1): multiplicative inverse in
//!   GF(2^8) modulo m(x) = x^8 + x^4 + x^3 + x + 1 (0 maps to 0), followed by the affine map
//!   b'_i = b_i ^ b_{i+4} ^ b_{i+5} ^ b_{i+6} ^ b_{i+7} ^ c_i, c = 0x63 (indices mod 8).
//! * KeyExpansion is the word-oriented pseudo code of section 5.2 (Figure 11).
//! * Cipher is Figure 5, InvCipher is Figure 12 (the straightforward inverse cipher).
//! * `cipher_round` / `equiv_inv_cipher_round` are one middle round of Figure 5 resp. of the
//!   Equivalent Inverse Cipher (Figure 15), taking the round key as an explicit argument.

use std::sync::OnceLock;

/// Multiplication by x in GF(2^8) mod x^8+x^4+x^3+x+1 (FIPS-197 section 4.2.1, `xtime`).
fn xtime(a: u8) -> u8 {
    let shifted = a << 1;
    if a & 0x80 != 0 {
        shifted ^ 0x1b
    } else {
        shifted
    }
}

/// Multiplication in GF(2^8) (FIPS-197 section 4.2): shift-and-add with `xtime`.
pub fn gf_mul(a: u8, b: u8) -> u8 {
    let mut acc = 0u8;
    let mut power = a; // a * x^i
    for i in 0..8 {
        if (b >> i) & 1 == 1 {
            acc ^= power;
        }
        power = xtime(power);
    }
    acc
}

/// Multiplicative inverse in GF(2^8); 0 is mapped to 0 (section 5.1.1, step 1).
/// The multiplicative group has order 255, so a^-1 = a^254 (square-and-multiply on `gf_mul`);
/// the result is checked with `gf_mul(a, inv) == 1`. (An exhaustive search for the inverse was
/// used first; it made the model's start-up cost minutes under an interpreter.)
fn gf_inv(a: u8) -> u8 {
    if a == 0 {
        return 0;
    }
    let mut result = 1u8;
    let mut base = a;
    let mut e = 254u32;
    while e > 0 {
        if e & 1 == 1 {
            result = gf_mul(result, base);
        }
        base = gf_mul(base, base);
        e >>= 1;
    }
    assert_eq!(gf_mul(a, result), 1, "a^254 is the inverse of a");
    result
}

/// The affine transformation over GF(2) of section 5.1.1 (equation 5.1).
fn affine(b: u8) -> u8 {
    let c = 0x63u8;
    let mut out = 0u8;
    for i in 0..8 {
        let bit = ((b >> i) & 1)
            ^ ((b >> ((i + 4) % 8)) & 1)
            ^ ((b >> ((i + 5) % 8)) & 1)
            ^ ((b >> ((i + 6) % 8)) & 1)
            ^ ((b >> ((i + 7) % 8)) & 1)
            ^ ((c >> i) & 1);
        out |= bit << i;
    }
    out
}

struct Boxes {
    sbox: [u8; 256],
    inv_sbox: [u8; 256],
}

fn boxes() -> &'static Boxes {
    static BOXES: OnceLock<Boxes> = OnceLock::new();
    BOXES.get_or_init(|| {
        let mut sbox = [0u8; 256];
        let mut inv_sbox = [0u8; 256];
        for x in 0..256usize {
            sbox[x] = affine(gf_inv(x as u8));
        }
        // The inverse S-box is the inverse permutation (section 5.3.2).
        for x in 0..256usize {
            inv_sbox[sbox[x] as usize] = x as u8;
        }
        Boxes { sbox, inv_sbox }
    })
}

/// S-box value (Figure 7).
pub fn sbox(x: u8) -> u8 {
    boxes().sbox[x as usize]
}

/// Inverse S-box value (Figure 14).
pub fn inv_sbox(x: u8) -> u8 {
    boxes().inv_sbox[x as usize]
}

/// SubBytes (section 5.1.1).
pub fn sub_bytes(s: &mut [u8; 16]) {
    for b in s.iter_mut() {
        *b = sbox(*b);
    }
}

/// InvSubBytes (section 5.3.2).
pub fn inv_sub_bytes(s: &mut [u8; 16]) {
    for b in s.iter_mut() {
        *b = inv_sbox(*b);
    }
}

/// ShiftRows (section 5.1.2): s'[r][c] = s[r][(c + r) mod 4].
pub fn shift_rows(s: &mut [u8; 16]) {
    let old = *s;
    for r in 0..4 {
        for c in 0..4 {
            s[4 * c + r] = old[4 * ((c + r) % 4) + r];
        }
    }
}

/// InvShiftRows (section 5.3.1): s'[r][(c + r) mod 4] = s[r][c].
pub fn inv_shift_rows(s: &mut [u8; 16]) {
    let old = *s;
    for r in 0..4 {
        for c in 0..4 {
            s[4 * ((c + r) % 4) + r] = old[4 * c + r];
        }
    }
}

/// Multiply every column by the fixed polynomial with coefficients
/// `a[0] + a[1] x + a[2] x^2 + a[3] x^3` modulo x^4 + 1 (section 4.3, equation 4.10).
fn mul_columns(s: &mut [u8; 16], a: [u8; 4]) {
    for c in 0..4 {
        let col = [s[4 * c], s[4 * c + 1], s[4 * c + 2], s[4 * c + 3]];
        for r in 0..4 {
            // d_r = sum_j a_{(r - j) mod 4} * b_j
            let mut d = 0u8;
            for j in 0..4 {
                d ^= gf_mul(a[(r + 4 - j) % 4], col[j]);
            }
            s[4 * c + r] = d;
        }
    }
}

/// MixColumns (section 5.1.3): a(x) = {03}x^3 + {01}x^2 + {01}x + {02}.
pub fn mix_columns(s: &mut [u8; 16]) {
    mul_columns(s, [0x02, 0x01, 0x01, 0x03]);
}

/// InvMixColumns (section 5.3.3): a^-1(x) = {0b}x^3 + {0d}x^2 + {09}x + {0e}.
pub fn inv_mix_columns(s: &mut [u8; 16]) {
    mul_columns(s, [0x0e, 0x09, 0x0d, 0x0b]);
}

/// AddRoundKey (section 5.1.4).
pub fn add_round_key(s: &mut [u8; 16], k: &[u8; 16]) {
    for i in 0..16 {
        s[i] ^= k[i];
    }
}

/// One full middle round of Cipher (Figure 5):
/// `MixColumns(ShiftRows(SubBytes(block))) XOR rk`.
pub fn cipher_round(block: &mut [u8; 16], rk: &[u8; 16]) {
    sub_bytes(block);
    shift_rows(block);
    mix_columns(block);
    add_round_key(block, rk);
}

/// One full middle round of EqInvCipher (Figure 15):
/// `InvMixColumns(InvShiftRows(InvSubBytes(block))) XOR rk`.
pub fn equiv_inv_cipher_round(block: &mut [u8; 16], rk: &[u8; 16]) {
    inv_sub_bytes(block);
    inv_shift_rows(block);
    inv_mix_columns(block);
    add_round_key(block, rk);
}

/// SubWord (section 5.2) on a word held as 4 bytes.
fn sub_word(w: [u8; 4]) -> [u8; 4] {
    [sbox(w[0]), sbox(w[1]), sbox(w[2]), sbox(w[3])]
}

/// RotWord (section 5.2): [a0,a1,a2,a3] -> [a1,a2,a3,a0].
fn rot_word(w: [u8; 4]) -> [u8; 4] {
    [w[1], w[2], w[3], w[0]]
}

/// AES with a 128-, 192- or 256-bit key.
#[derive(Clone)]
pub struct Aes {
    /// Nr + 1 round keys; round key i is words w[4i..4i+4] of the key schedule.
    rk: Vec<[u8; 16]>,
}

impl Aes {
    pub const BLOCK: usize = 16;

    /// KeyExpansion (Figure 11). `None` unless the key has 16, 24 or 32 bytes.
    pub fn new(key: &[u8]) -> Option<Self> {
        let nk = match key.len() {
            16 => 4,
            24 => 6,
            32 => 8,
            _ => return None,
        };
        let nb = 4;
        let nr = nk + 6;
        let mut w: Vec<[u8; 4]> = Vec::with_capacity(nb * (nr + 1));
        for i in 0..nk {
            w.push([key[4 * i], key[4 * i + 1], key[4 * i + 2], key[4 * i + 3]]);
        }
        // Rcon[i] = [x^(i-1), 0, 0, 0]
        let mut rc = 0x01u8;
        for i in nk..nb * (nr + 1) {
            let mut temp = w[i - 1];
            if i % nk == 0 {
                temp = sub_word(rot_word(temp));
                temp[0] ^= rc;
                rc = xtime(rc);
            } else if nk > 6 && i % nk == 4 {
                temp = sub_word(temp);
            }
            let prev = w[i - nk];
            w.push([
                prev[0] ^ temp[0],
                prev[1] ^ temp[1],
                prev[2] ^ temp[2],
                prev[3] ^ temp[3],
            ]);
        }
        let mut rk = Vec::with_capacity(nr + 1);
        for round in 0..=nr {
            let mut k = [0u8; 16];
            for c in 0..4 {
                k[4 * c..4 * c + 4].copy_from_slice(&w[4 * round + c]);
            }
            rk.push(k);
        }
        Some(Aes { rk })
    }

    /// The Nr + 1 round keys of KeyExpansion, in the order used by Cipher.
    pub fn round_keys(&self) -> &[[u8; 16]] {
        &self.rk
    }

    /// Number of rounds Nr (10, 12 or 14).
    pub fn rounds(&self) -> usize {
        self.rk.len() - 1
    }

    /// Cipher (Figure 5). `block.len()` must be 16.
    pub fn encrypt(&self, block: &mut [u8]) {
        assert_eq!(block.len(), Self::BLOCK);
        let nr = self.rounds();
        let mut s = [0u8; 16];
        s.copy_from_slice(block);
        add_round_key(&mut s, &self.rk[0]);
        for round in 1..nr {
            sub_bytes(&mut s);
            shift_rows(&mut s);
            mix_columns(&mut s);
            add_round_key(&mut s, &self.rk[round]);
        }
        sub_bytes(&mut s);
        shift_rows(&mut s);
        add_round_key(&mut s, &self.rk[nr]);
        block.copy_from_slice(&s);
    }

    /// InvCipher (Figure 12). `block.len()` must be 16.
    pub fn decrypt(&self, block: &mut [u8]) {
        assert_eq!(block.len(), Self::BLOCK);
        let nr = self.rounds();
        let mut s = [0u8; 16];
        s.copy_from_slice(block);
        add_round_key(&mut s, &self.rk[nr]);
        for round in (1..nr).rev() {
            inv_shift_rows(&mut s);
            inv_sub_bytes(&mut s);
            add_round_key(&mut s, &self.rk[round]);
            inv_mix_columns(&mut s);
        }
        inv_shift_rows(&mut s);
        inv_sub_bytes(&mut s);
        add_round_key(&mut s, &self.rk[0]);
        block.copy_from_slice(&s);
    }
}

#[cfg(test)]
mod tests {
    use super::*;

    fn hex(s: &str) -> Vec<u8> {
        let s: String = s.chars().filter(|c| !c.is_whitespace()).collect();
        assert!(s.len() % 2 == 0);
        (0..s.len() / 2)
            .map(|i| u8::from_str_radix(&s[2 * i..2 * i + 2], 16).unwrap())
            .collect()
    }
    fn hex16(s: &str) -> [u8; 16] {
        let v = hex(s);
        let mut a = [0u8; 16];
        a.copy_from_slice(&v);
        a
    }
    /// Word i of the key schedule, as the big-endian hex used in FIPS-197 Appendix A.
    fn word(a: &Aes, i: usize) -> u32 {
        let k = &a.round_keys()[i / 4];
        let c = i % 4;
        u32::from_be_bytes([k[4 * c], k[4 * c + 1], k[4 * c + 2], k[4 * c + 3]])
    }

    /// FIPS-197 Figure 7 / Figure 14 spot values and the worked example of section 5.1.1
    /// (S-box of {53} is {ed}); section 4.2 example {57} * {83} = {c1}, {57} * {13} = {fe}.
    #[test]
    fn sbox_spot_values() {
        assert_eq!(gf_mul(0x57, 0x83), 0xc1);
        assert_eq!(gf_mul(0x57, 0x13), 0xfe);
        assert_eq!(sbox(0x00), 0x63);
        assert_eq!(sbox(0x01), 0x7c);
        assert_eq!(sbox(0x53), 0xed);
        assert_eq!(sbox(0xff), 0x16);
        assert_eq!(sbox(0x10), 0xca);
        assert_eq!(inv_sbox(0x00), 0x52);
        assert_eq!(inv_sbox(0x63), 0x00);
        assert_eq!(inv_sbox(0xff), 0x7d);
        // first row of Figure 7
        let row0 = hex("637c777bf26b6fc53001672bfed7ab76");
        for (i, v) in row0.iter().enumerate() {
            assert_eq!(sbox(i as u8), *v);
        }
        // first row of Figure 14
        let irow0 = hex("52096ad53036a538bf40a39e81f3d7fb");
        for (i, v) in irow0.iter().enumerate() {
            assert_eq!(inv_sbox(i as u8), *v);
        }
        // permutation, no fixed points, no opposite fixed points
        for x in 0..=255u8 {
            assert_eq!(inv_sbox(sbox(x)), x);
            assert_ne!(sbox(x), x);
            assert_ne!(sbox(x), !x);
        }
    }

    /// FIPS-197 Appendix A.1 (AES-128 key expansion).
    #[test]
    fn key_expansion_a1() {
        let a = Aes::new(&hex("2b7e151628aed2a6abf7158809cf4f3c")).unwrap();
        assert_eq!(a.round_keys().len(), 11);
        assert_eq!(word(&a, 0), 0x2b7e1516);
        assert_eq!(word(&a, 3), 0x09cf4f3c);
        assert_eq!(word(&a, 4), 0xa0fafe17);
        assert_eq!(word(&a, 5), 0x88542cb1);
        assert_eq!(word(&a, 6), 0x23a33939);
        assert_eq!(word(&a, 7), 0x2a6c7605);
        assert_eq!(word(&a, 8), 0xf2c295f2);
        assert_eq!(word(&a, 40), 0xd014f9a8);
        assert_eq!(word(&a, 41), 0xc9ee2589);
        assert_eq!(word(&a, 42), 0xe13f0cc8);
        assert_eq!(word(&a, 43), 0xb6630ca6);
    }

    /// FIPS-197 Appendix A.2 (AES-192 key expansion).
    #[test]
    fn key_expansion_a2() {
        let a = Aes::new(&hex("8e73b0f7da0e6452c810f32b809079e562f8ead2522c6b7b")).unwrap();
        assert_eq!(a.round_keys().len(), 13);
        assert_eq!(word(&a, 5), 0x522c6b7b);
        assert_eq!(word(&a, 6), 0xfe0c91f7);
        assert_eq!(word(&a, 7), 0x2402f5a5);
        assert_eq!(word(&a, 8), 0xec12068e);
        assert_eq!(word(&a, 10), 0x0e7a95b9);
        assert_eq!(word(&a, 11), 0x5c56fec2);
        assert_eq!(word(&a, 12), 0x4db7b4bd);
        assert_eq!(word(&a, 48), 0xe98ba06f);
        assert_eq!(word(&a, 51), 0x01002202);
    }

    /// FIPS-197 Appendix A.3 (AES-256 key expansion).
    #[test]
    fn key_expansion_a3() {
        let a = Aes::new(&hex(
            "603deb1015ca71be2b73aef0857d77811f352c073b6108d72d9810a30914dff4",
        ))
        .unwrap();
        assert_eq!(a.round_keys().len(), 15);
        assert_eq!(word(&a, 7), 0x0914dff4);
        assert_eq!(word(&a, 8), 0x9ba35411);
        assert_eq!(word(&a, 9), 0x8e6925af);
        assert_eq!(word(&a, 12), 0xa8b09c1a);
        assert_eq!(word(&a, 13), 0x93d194cd);
        assert_eq!(word(&a, 56), 0xfe4890d1);
        assert_eq!(word(&a, 59), 0x706c631e);
    }

    /// FIPS-197 Appendix B (cipher example), including the round-1 intermediate states.
    #[test]
    fn appendix_b() {
        let a = Aes::new(&hex("2b7e151628aed2a6abf7158809cf4f3c")).unwrap();
        let mut b = hex("3243f6a8885a308d313198a2e0370734");
        a.encrypt(&mut b);
        assert_eq!(b, hex("3925841d02dc09fbdc118597196a0b32"));
        a.decrypt(&mut b);
        assert_eq!(b, hex("3243f6a8885a308d313198a2e0370734"));

        // Round 1 of Appendix B, column by column.
        let mut s = hex16("193de3bea0f4e22b9ac68d2ae9f84808"); // start of round 1
        sub_bytes(&mut s);
        assert_eq!(s, hex16("d42711aee0bf98f1b8b45de51e415230"));
        shift_rows(&mut s);
        assert_eq!(s, hex16("d4bf5d30e0b452aeb84111f11e2798e5"));
        mix_columns(&mut s);
        assert_eq!(s, hex16("046681e5e0cb199a48f8d37a2806264c"));
        add_round_key(&mut s, &a.round_keys()[1]);
        assert_eq!(s, hex16("a49c7ff2689f352b6b5bea43026a5049"));
    }

    /// FIPS-197 Appendix C.1, C.2, C.3 (example vectors), both directions.
    #[test]
    fn appendix_c() {
        let pt = hex("00112233445566778899aabbccddeeff");
        let cases = [
            (
                "000102030405060708090a0b0c0d0e0f",
                "69c4e0d86a7b0430d8cdb78070b4c55a",
            ),
            (
                "000102030405060708090a0b0c0d0e0f1011121314151617",
                "dda97ca4864cdfe06eaf70a0ec0d7191",
            ),
            (
                "000102030405060708090a0b0c0d0e0f101112131415161718191a1b1c1d1e1f",
                "8ea2b7ca516745bfeafc49904b496089",
            ),
        ];
        for (k, ct) in cases {
            let a = Aes::new(&hex(k)).unwrap();
            let mut b = pt.clone();
            a.encrypt(&mut b);
            assert_eq!(b, hex(ct));
            a.decrypt(&mut b);
            assert_eq!(b, pt);
        }
    }

    /// Intermediate values of FIPS-197 Appendix C.1: round[r].start, round[r].k_sch ->
    /// round[r+1].start for the cipher; for the equivalent inverse cipher the `k_sch` is
    /// the modified (InvMixColumns-ed) schedule dw of section 5.3.5.
    /// (Same values as listed in RustCrypto `aes/tests/hazmat.rs`, which cites C.1.)
    #[test]
    fn appendix_c1_rounds() {
        let enc = [
            (
                "00102030405060708090a0b0c0d0e0f0",
                "d6aa74fdd2af72fadaa678f1d6ab76fe",
                "89d810e8855ace682d1843d8cb128fe4",
            ),
            (
                "89d810e8855ace682d1843d8cb128fe4",
                "b692cf0b643dbdf1be9bc5006830b3fe",
                "4915598f55e5d7a0daca94fa1f0a63f7",
            ),
            (
                "4915598f55e5d7a0daca94fa1f0a63f7",
                "b6ff744ed2c2c9bf6c590cbf0469bf41",
                "fa636a2825b339c940668a3157244d17",
            ),
            (
                "fa636a2825b339c940668a3157244d17",
                "47f7f7bc95353e03f96c32bcfd058dfd",
                "247240236966b3fa6ed2753288425b6c",
            ),
        ];
        let a = Aes::new(&hex("000102030405060708090a0b0c0d0e0f")).unwrap();
        for (i, (start, k, out)) in enc.iter().enumerate() {
            // the k_sch values are the model's own round keys 1..4
            assert_eq!(a.round_keys()[i + 1], hex16(k));
            let mut b = hex16(start);
            cipher_round(&mut b, &hex16(k));
            assert_eq!(b, hex16(out));
        }
        let dec = [
            (
                "7ad5fda789ef4e272bca100b3d9ff59f",
                "13aa29be9c8faff6f770f58000f7bf03",
                "54d990a16ba09ab596bbf40ea111702f",
            ),
            (
                "54d990a16ba09ab596bbf40ea111702f",
                "1362a4638f2586486bff5a76f7874a83",
                "3e1c22c0b6fcbf768da85067f6170495",
            ),
            (
                "3e1c22c0b6fcbf768da85067f6170495",
                "8d82fc749c47222be4dadc3e9c7810f5",
                "b458124c68b68a014b99f82e5f15554c",
            ),
            (
                "b458124c68b68a014b99f82e5f15554c",
                "72e3098d11c5de5f789dfe1578a2cccb",
                "e8dab6901477d4653ff7f5e2e747dd4f",
            ),
        ];
        for (i, (start, k, out)) in dec.iter().enumerate() {
            // dw for inverse round r uses InvMixColumns(round key Nr - r)
            let mut dw = a.round_keys()[10 - (i + 1)];
            inv_mix_columns(&mut dw);
            assert_eq!(dw, hex16(k));
            let mut b = hex16(start);
            equiv_inv_cipher_round(&mut b, &hex16(k));
            assert_eq!(b, hex16(out));
        }
    }

    /// The Equivalent Inverse Cipher (Figure 15) built from `equiv_inv_cipher_round` must
    /// equal InvCipher (Figure 12), as section 5.3.5 states.
    #[test]
    fn equivalent_inverse_cipher_agrees() {
        let mut x = 0x1234_5678_9abc_def0u64;
        let mut next = || {
            x ^= x << 13;
            x ^= x >> 7;
            x ^= x << 17;
            x as u8
        };
        for &kl in &[16usize, 24, 32] {
            for _ in 0..50 {
                let key: Vec<u8> = (0..kl).map(|_| next()).collect();
                let mut blk = [0u8; 16];
                for b in blk.iter_mut() {
                    *b = next();
                }
                let a = Aes::new(&key).unwrap();
                let nr = a.rounds();
                let mut s = blk;
                add_round_key(&mut s, &a.round_keys()[nr]);
                for round in (1..nr).rev() {
                    let mut dw = a.round_keys()[round];
                    inv_mix_columns(&mut dw);
                    equiv_inv_cipher_round(&mut s, &dw);
                }
                inv_sub_bytes(&mut s);
                inv_shift_rows(&mut s);
                add_round_key(&mut s, &a.round_keys()[0]);
                let mut t = blk;
                a.decrypt(&mut t);
                assert_eq!(s, t);
                a.encrypt(&mut t);
                assert_eq!(t, blk);
            }
        }
    }

    #[test]
    fn inverse_transformations() {
        let mut s = hex16("00112233445566778899aabbccddeeff");
        let orig = s;
        shift_rows(&mut s);
        assert_ne!(s, orig);
        inv_shift_rows(&mut s);
        assert_eq!(s, orig);
        mix_columns(&mut s);
        inv_mix_columns(&mut s);
        assert_eq!(s, orig);
        sub_bytes(&mut s);
        inv_sub_bytes(&mut s);
        assert_eq!(s, orig);
        // widely circulated MixColumns column examples (not from FIPS-197):
        // db 13 53 45 -> 8e 4d a1 bc, f2 0a 22 5c -> 9f dc 58 9d, 01.. and c6.. are fixed
        let mut c = hex16("db135345f20a225c01010101c6c6c6c6");
        mix_columns(&mut c);
        assert_eq!(c, hex16("8e4da1bc9fdc589d01010101c6c6c6c6"));
    }

    #[test]
    fn key_lengths() {
        for l in 0..40usize {
            let k = vec![0u8; l];
            assert_eq!(Aes::new(&k).is_some(), l == 16 || l == 24 || l == 32);
        }
    }
}
