//! Reference model of ARIA (RFC 5794 / KS X 1213), written from the specification on byte
//! arrays: state and round keys are `[u8; 16]` with byte 0 the first (most significant) byte.
//!
//! * S-boxes are computed: SB1(x) = A . x^-1 + a (the AES S-box) and SB2(x) = B . x^247 + b
//!   over GF(2^8) = GF(2)[z]/(z^8+z^4+z^3+z+1), with the 8x8 binary matrices A, B and the
//!   constants a = 0x63, b = 0xe2 of the ARIA specification; SB3 = SB1^-1, SB4 = SB2^-1.
//!   The first row of each table printed in RFC 5794 section 2.4.2 is checked in the tests.
//! * The diffusion layer is the 16 XOR equations printed in RFC 5794 section 2.4.3.
//! * Key schedule per RFC 5794 section 2.2. The constants C1, C2, C3 (the first 3 x 128 bits
//!   of the fractional part of 1/pi) are transcribed from the RFC; the tests recompute them
//!   from pi with a small fixed-point big-number routine.

type Block = [u8; 16];

// ---------------------------------------------------------------------------------------
// GF(2^8) arithmetic and S-boxes

/// Multiplication in GF(2^8) modulo z^8 + z^4 + z^3 + z + 1.
fn gf_mul(mut a: u8, mut b: u8) -> u8 {
    let mut r = 0u8;
    while b != 0 {
        if b & 1 != 0 {
            r ^= a;
        }
        let carry = a & 0x80 != 0;
        a <<= 1;
        if carry {
            a ^= 0x1b;
        }
        b >>= 1;
    }
    r
}

fn gf_pow(x: u8, e: u32) -> u8 {
    let mut r = 1u8;
    for _ in 0..e {
        r = gf_mul(r, x);
    }
    r
}

/// y = M . x + c over GF(2): row i of `m` produces bit i of y (bit 0 = least significant);
/// column j of a row multiplies bit j of x.
fn affine(m: &[[u8; 8]; 8], c: u8, x: u8) -> u8 {
    let mut y = 0u8;
    for i in 0..8 {
        let mut bit = 0u8;
        for j in 0..8 {
            bit ^= m[i][j] & ((x >> j) & 1);
        }
        y |= bit << i;
    }
    y ^ c
}

/// Matrix A of S-box S1 (ARIA specification; the AES affine map), constant a = 0x63.
const MAT_A: [[u8; 8]; 8] = [
    [1, 0, 0, 0, 1, 1, 1, 1],
    [1, 1, 0, 0, 0, 1, 1, 1],
    [1, 1, 1, 0, 0, 0, 1, 1],
    [1, 1, 1, 1, 0, 0, 0, 1],
    [1, 1, 1, 1, 1, 0, 0, 0],
    [0, 1, 1, 1, 1, 1, 0, 0],
    [0, 0, 1, 1, 1, 1, 1, 0],
    [0, 0, 0, 1, 1, 1, 1, 1],
];

/// Matrix B of S-box S2 (ARIA specification), constant b = 0xe2.
const MAT_B: [[u8; 8]; 8] = [
    [0, 1, 0, 1, 1, 1, 1, 0],
    [0, 0, 1, 1, 1, 1, 0, 1],
    [1, 1, 0, 1, 0, 1, 1, 1],
    [1, 0, 0, 1, 1, 1, 0, 1],
    [0, 0, 1, 0, 1, 1, 0, 0],
    [1, 0, 0, 0, 0, 0, 0, 1],
    [0, 1, 0, 1, 1, 1, 0, 1],
    [1, 1, 0, 1, 0, 0, 1, 1],
];

struct Sboxes {
    sb1: [u8; 256],
    sb2: [u8; 256],
    sb3: [u8; 256],
    sb4: [u8; 256],
}

/// The four tables, computed once per process.
fn sboxes() -> &'static Sboxes {
    static TABLES: std::sync::OnceLock<Sboxes> = std::sync::OnceLock::new();
    TABLES.get_or_init(make_sboxes)
}

fn make_sboxes() -> Sboxes {
    let mut s = Sboxes { sb1: [0; 256], sb2: [0; 256], sb3: [0; 256], sb4: [0; 256] };
    for x in 0..256usize {
        // x^-1 = x^254 (0 -> 0)
        s.sb1[x] = affine(&MAT_A, 0x63, gf_pow(x as u8, 254));
        s.sb2[x] = affine(&MAT_B, 0xe2, gf_pow(x as u8, 247));
    }
    for x in 0..256usize {
        s.sb3[s.sb1[x] as usize] = x as u8;
        s.sb4[s.sb2[x] as usize] = x as u8;
    }
    s
}

// ---------------------------------------------------------------------------------------
// Round functions

fn xor(a: &Block, b: &Block) -> Block {
    let mut r = [0u8; 16];
    for i in 0..16 {
        r[i] = a[i] ^ b[i];
    }
    r
}

/// Substitution layer type 1: (SB1, SB2, SB3, SB4) x 4.
fn sl1(s: &Sboxes, x: &Block) -> Block {
    let mut y = [0u8; 16];
    for i in 0..4 {
        y[4 * i] = s.sb1[x[4 * i] as usize];
        y[4 * i + 1] = s.sb2[x[4 * i + 1] as usize];
        y[4 * i + 2] = s.sb3[x[4 * i + 2] as usize];
        y[4 * i + 3] = s.sb4[x[4 * i + 3] as usize];
    }
    y
}

/// Substitution layer type 2: (SB3, SB4, SB1, SB2) x 4.
fn sl2(s: &Sboxes, x: &Block) -> Block {
    let mut y = [0u8; 16];
    for i in 0..4 {
        y[4 * i] = s.sb3[x[4 * i] as usize];
        y[4 * i + 1] = s.sb4[x[4 * i + 1] as usize];
        y[4 * i + 2] = s.sb1[x[4 * i + 2] as usize];
        y[4 * i + 3] = s.sb2[x[4 * i + 3] as usize];
    }
    y
}

/// Diffusion layer A: the 16 equations of RFC 5794 section 2.4.3.
fn a(x: &Block) -> Block {
    let mut y = [0u8; 16];
    y[0] = x[3] ^ x[4] ^ x[6] ^ x[8] ^ x[9] ^ x[13] ^ x[14];
    y[1] = x[2] ^ x[5] ^ x[7] ^ x[8] ^ x[9] ^ x[12] ^ x[15];
    y[2] = x[1] ^ x[4] ^ x[6] ^ x[10] ^ x[11] ^ x[12] ^ x[15];
    y[3] = x[0] ^ x[5] ^ x[7] ^ x[10] ^ x[11] ^ x[13] ^ x[14];
    y[4] = x[0] ^ x[2] ^ x[5] ^ x[8] ^ x[11] ^ x[14] ^ x[15];
    y[5] = x[1] ^ x[3] ^ x[4] ^ x[9] ^ x[10] ^ x[14] ^ x[15];
    y[6] = x[0] ^ x[2] ^ x[7] ^ x[9] ^ x[10] ^ x[12] ^ x[13];
    y[7] = x[1] ^ x[3] ^ x[6] ^ x[8] ^ x[11] ^ x[12] ^ x[13];
    y[8] = x[0] ^ x[1] ^ x[4] ^ x[7] ^ x[10] ^ x[13] ^ x[15];
    y[9] = x[0] ^ x[1] ^ x[5] ^ x[6] ^ x[11] ^ x[12] ^ x[14];
    y[10] = x[2] ^ x[3] ^ x[5] ^ x[6] ^ x[8] ^ x[13] ^ x[15];
    y[11] = x[2] ^ x[3] ^ x[4] ^ x[7] ^ x[9] ^ x[12] ^ x[14];
    y[12] = x[1] ^ x[2] ^ x[6] ^ x[7] ^ x[9] ^ x[11] ^ x[12];
    y[13] = x[0] ^ x[3] ^ x[6] ^ x[7] ^ x[8] ^ x[10] ^ x[13];
    y[14] = x[0] ^ x[3] ^ x[4] ^ x[5] ^ x[9] ^ x[11] ^ x[14];
    y[15] = x[1] ^ x[2] ^ x[4] ^ x[5] ^ x[8] ^ x[10] ^ x[15];
    y
}

/// Odd round function FO(D, RK) = A(SL1(D ^ RK)).
fn fo(s: &Sboxes, d: &Block, rk: &Block) -> Block {
    a(&sl1(s, &xor(d, rk)))
}

/// Even round function FE(D, RK) = A(SL2(D ^ RK)).
fn fe(s: &Sboxes, d: &Block, rk: &Block) -> Block {
    a(&sl2(s, &xor(d, rk)))
}

// ---------------------------------------------------------------------------------------
// Key schedule

const C1: Block = [0x51, 0x7c, 0xc1, 0xb7, 0x27, 0x22, 0x0a, 0x94, 0xfe, 0x13, 0xab, 0xe8, 0xfa, 0x9a, 0x6e, 0xe0];
const C2: Block = [0x6d, 0xb1, 0x4a, 0xcc, 0x9e, 0x21, 0xc8, 0x20, 0xff, 0x28, 0xb1, 0xd5, 0xef, 0x5d, 0xe2, 0xb0];
const C3: Block = [0xdb, 0x92, 0x37, 0x1d, 0x21, 0x26, 0xe9, 0x70, 0x03, 0x24, 0x97, 0x75, 0x04, 0xe8, 0xc9, 0x0e];

/// Bit i (0 = most significant bit of byte 0) of a 128-bit string.
fn get_bit(x: &Block, i: usize) -> u8 {
    (x[i / 8] >> (7 - i % 8)) & 1
}

/// x <<< n on the 128-bit string (bit i of the result is bit i+n of x).
fn rol(x: &Block, n: usize) -> Block {
    let mut y = [0u8; 16];
    for i in 0..128 {
        let b = get_bit(x, (i + n) % 128);
        y[i / 8] |= b << (7 - i % 8);
    }
    y
}

/// x >>> n on the 128-bit string.
fn ror(x: &Block, n: usize) -> Block {
    rol(x, 128 - n)
}

pub struct Aria {
    /// Number of rounds n: 12, 14 or 16.
    rounds: usize,
    /// Encryption round keys ek1 .. ek_{n+1} at index 1..=n+1 (index 0 unused).
    ek: Vec<Block>,
    /// Decryption round keys dk1 .. dk_{n+1} at index 1..=n+1 (index 0 unused).
    dk: Vec<Block>,
    sboxes: &'static Sboxes,
}

impl Aria {
    pub const BLOCK: usize = 16;

    pub fn new(key: &[u8]) -> Option<Self> {
        let (rounds, ck1, ck2, ck3) = match key.len() {
            16 => (12, C1, C2, C3),
            24 => (14, C2, C3, C1),
            32 => (16, C3, C1, C2),
            _ => return None,
        };
        let s = sboxes();

        // KL || KR = MK || 0 ... 0
        let mut kl = [0u8; 16];
        let mut kr = [0u8; 16];
        kl.copy_from_slice(&key[0..16]);
        kr[..key.len() - 16].copy_from_slice(&key[16..]);

        let w0 = kl;
        let w1 = xor(&fo(s, &w0, &ck1), &kr);
        let w2 = xor(&fe(s, &w1, &ck2), &w0);
        let w3 = xor(&fo(s, &w2, &ck3), &w1);

        let mut ek: Vec<Block> = vec![[0u8; 16]; 18];
        ek[1] = xor(&w0, &ror(&w1, 19));
        ek[2] = xor(&w1, &ror(&w2, 19));
        ek[3] = xor(&w2, &ror(&w3, 19));
        ek[4] = xor(&ror(&w0, 19), &w3);
        ek[5] = xor(&w0, &ror(&w1, 31));
        ek[6] = xor(&w1, &ror(&w2, 31));
        ek[7] = xor(&w2, &ror(&w3, 31));
        ek[8] = xor(&ror(&w0, 31), &w3);
        ek[9] = xor(&w0, &rol(&w1, 61));
        ek[10] = xor(&w1, &rol(&w2, 61));
        ek[11] = xor(&w2, &rol(&w3, 61));
        ek[12] = xor(&rol(&w0, 61), &w3);
        ek[13] = xor(&w0, &rol(&w1, 31));
        ek[14] = xor(&w1, &rol(&w2, 31));
        ek[15] = xor(&w2, &rol(&w3, 31));
        ek[16] = xor(&rol(&w0, 31), &w3);
        ek[17] = xor(&w0, &rol(&w1, 19));
        ek.truncate(rounds + 2);

        // dk1 = ek_{n+1}, dk_i = A(ek_{n+2-i}) for i = 2..n, dk_{n+1} = ek1
        let n = rounds;
        let mut dk: Vec<Block> = vec![[0u8; 16]; n + 2];
        dk[1] = ek[n + 1];
        for i in 2..=n {
            dk[i] = a(&ek[n + 2 - i]);
        }
        dk[n + 1] = ek[1];

        Some(Aria { rounds, ek, dk, sboxes: s })
    }

    /// The round structure shared by encryption and decryption (RFC 5794 sections 2.3.1,
    /// 2.3.2): n-1 rounds alternating FO, FE, then SL2 with two key additions.
    fn crypt(&self, block: &mut [u8], rk: &[Block]) {
        assert_eq!(block.len(), Self::BLOCK);
        let n = self.rounds;
        let mut p = [0u8; 16];
        p.copy_from_slice(block);
        for i in 1..n {
            p = if i % 2 == 1 { fo(self.sboxes, &p, &rk[i]) } else { fe(self.sboxes, &p, &rk[i]) };
        }
        let c = xor(&sl2(self.sboxes, &xor(&p, &rk[n])), &rk[n + 1]);
        block.copy_from_slice(&c);
    }

    pub fn encrypt(&self, block: &mut [u8]) {
        self.crypt(block, &self.ek)
    }

    pub fn decrypt(&self, block: &mut [u8]) {
        self.crypt(block, &self.dk)
    }
}

#[cfg(test)]
mod tests {
    use super::*;

    fn hex(s: &str) -> Vec<u8> {
        (0..s.len() / 2).map(|i| u8::from_str_radix(&s[2 * i..2 * i + 2], 16).unwrap()).collect()
    }

    /// First and last rows of the four S-box tables printed in RFC 5794 section 2.4.2.
    #[test]
    fn sbox_rows_as_printed() {
        let s = make_sboxes();
        assert_eq!(s.sb1[..16].to_vec(), hex("637c777bf26b6fc53001672bfed7ab76"));
        assert_eq!(s.sb1[240..].to_vec(), hex("8ca1890dbfe6426841992d0fb054bb16"));
        assert_eq!(s.sb2[..16].to_vec(), hex("e24e54fc94c24acc620d6a463c4d8bd1"));
        assert_eq!(s.sb3[..16].to_vec(), hex("52096ad53036a538bf40a39e81f3d7fb"));
        assert_eq!(s.sb4[..16].to_vec(), hex("3068991b87b921785039dbe17209623c"));
    }

    /// A is an involution and its matrix is symmetric (RFC 5794 section 2.4.3).
    #[test]
    fn diffusion_layer_properties() {
        let mut m = [[0u8; 16]; 16];
        for j in 0..16 {
            let mut e = [0u8; 16];
            e[j] = 1;
            let col = a(&e);
            for i in 0..16 {
                m[i][j] = col[i];
            }
            assert_eq!(a(&col), e);
            assert_eq!(col.iter().map(|&v| v as u32).sum::<u32>(), 7);
        }
        for i in 0..16 {
            for j in 0..16 {
                assert_eq!(m[i][j], m[j][i]);
            }
        }
    }

    // --- 1/pi, to check C1, C2, C3 -------------------------------------------------------
    // Fixed point numbers: LIMBS 32-bit limbs, most significant first; limb 0 is the integer
    // part, the rest the fraction.
    const LIMBS: usize = 20;
    type Fx = [u32; LIMBS];

    fn fx_div_small(a: &mut Fx, d: u32) {
        let mut rem = 0u64;
        for limb in a.iter_mut() {
            let cur = (rem << 32) | *limb as u64;
            *limb = (cur / d as u64) as u32;
            rem = cur % d as u64;
        }
    }
    fn fx_add(a: &mut Fx, b: &Fx) {
        let mut carry = 0u64;
        for i in (0..LIMBS).rev() {
            let t = a[i] as u64 + b[i] as u64 + carry;
            a[i] = t as u32;
            carry = t >> 32;
        }
    }
    fn fx_sub(a: &mut Fx, b: &Fx) {
        let mut borrow = 0i64;
        for i in (0..LIMBS).rev() {
            let t = a[i] as i64 - b[i] as i64 - borrow;
            if t < 0 {
                a[i] = (t + (1i64 << 32)) as u32;
                borrow = 1;
            } else {
                a[i] = t as u32;
                borrow = 0;
            }
        }
    }
    fn fx_shl1(a: &mut Fx) {
        let mut carry = 0u32;
        for i in (0..LIMBS).rev() {
            let c = a[i] >> 31;
            a[i] = (a[i] << 1) | carry;
            carry = c;
        }
    }
    /// scale * arctan(1/x) by the Gregory series.
    fn fx_arctan_inv(x: u32, scale: u32) -> Fx {
        let mut term: Fx = [0; LIMBS];
        term[0] = scale;
        fx_div_small(&mut term, x);
        let mut sum: Fx = [0; LIMBS];
        let mut k = 0u32;
        while term.iter().any(|&l| l != 0) {
            let mut t = term;
            fx_div_small(&mut t, 2 * k + 1);
            if k % 2 == 0 {
                fx_add(&mut sum, &t);
            } else {
                fx_sub(&mut sum, &t);
            }
            fx_div_small(&mut term, x * x);
            k += 1;
        }
        sum
    }

    /// C1 || C2 || C3 = the first 384 bits of the fractional part of 1/pi.
    #[test]
    fn constants_from_inverse_pi() {
        // Machin: pi = 16 arctan(1/5) - 4 arctan(1/239)
        let mut pi = fx_arctan_inv(5, 16);
        fx_sub(&mut pi, &fx_arctan_inv(239, 4));
        assert_eq!(pi[0], 3);
        assert_eq!(pi[1], 0x243f6a88);
        // restoring division 1 / pi, one bit at a time
        let mut r: Fx = [0; LIMBS];
        r[0] = 1;
        let mut bits = [0u8; 48];
        for i in 0..384 {
            fx_shl1(&mut r);
            if r >= pi {
                fx_sub(&mut r, &pi);
                bits[i / 8] |= 0x80 >> (i % 8);
            }
        }
        assert_eq!(&bits[0..16], &C1);
        assert_eq!(&bits[16..32], &C2);
        assert_eq!(&bits[32..48], &C3);
    }

    fn check(key: &str, pt: &str, ct: &str) {
        let c = Aria::new(&hex(key)).unwrap();
        let mut b = hex(pt);
        c.encrypt(&mut b);
        assert_eq!(b, hex(ct));
        c.decrypt(&mut b);
        assert_eq!(b, hex(pt));
    }

    /// RFC 5794 Appendix A.1 (128-bit key), A.2 (192-bit key), A.3 (256-bit key).
    #[test]
    fn rfc5794_appendix_a() {
        check(
            "000102030405060708090a0b0c0d0e0f",
            "00112233445566778899aabbccddeeff",
            "d718fbd6ab644c739da95f3be6451778",
        );
        check(
            "000102030405060708090a0b0c0d0e0f1011121314151617",
            "00112233445566778899aabbccddeeff",
            "26449c1805dbe7aa25a468ce263a9e79",
        );
        check(
            "000102030405060708090a0b0c0d0e0f101112131415161718191a1b1c1d1e1f",
            "00112233445566778899aabbccddeeff",
            "f92bd7c79fb72e2f2b8f80c1972d24fc",
        );
    }

    #[test]
    fn key_lengths() {
        for n in 0..40 {
            assert_eq!(Aria::new(&vec![0u8; n]).is_some(), n == 16 || n == 24 || n == 32);
        }
    }
}
