//! Reference model of Blowfish (B. Schneier, "Description of a New Variable-Length Key, 64-Bit
//! Block Cipher (Blowfish)", FSE 1993) and of the eksblowfish / bcrypt construction
//! (N. Provos, D. Mazieres, "A Future-Adaptable Password Scheme", USENIX 1999).
//!
//! Written from the papers. The initial P-array and S-boxes are the first 18 + 4*256 32-bit
//! words of the fractional part of pi. They are parsed from the hexadecimal expansion of pi in
//! `pi_hex.rs` (generated with mpmath, no Blowfish source involved) so that first use is cheap
//! even under an interpreter (the big-number computation below takes ~0.15 s optimised, 0.5 s
//! unoptimised, but more than 15 minutes under Miri). The digits are verified in full by
//! [`pi_hex_matches_machin`], which recomputes them with Machin's formula
//! `pi = 16 arctan(1/5) - 4 arctan(1/239)` on a plain fixed-point big number (u32 limbs); the
//! unit tests call it, and a harness may call it once natively at start-up.
//!
//! Conventions (DESIGN.md Appendix A): `encrypt`/`decrypt` read and write the two 32-bit halves
//! big-endian (the original Blowfish); `encrypt_le`/`decrypt_le` are the same permutation of
//! (L, R) with each half read and written little-endian. The key is always consumed as
//! big-endian 32-bit words, cyclically.

use super::pi_hex::PI_FRAC_HEX;
use std::sync::OnceLock;

// ---------------------------------------------------------------------------------------------
// pi
// ---------------------------------------------------------------------------------------------

/// Fixed-point number: `limb[0]` is the integer part, `limb[1..]` the fraction, most
/// significant limb first (radix 2^32).
type Fixed = Vec<u32>;

fn fx_div_small(a: &mut Fixed, d: u32) {
    let mut rem: u64 = 0;
    for limb in a.iter_mut() {
        let cur = (rem << 32) | u64::from(*limb);
        *limb = (cur / u64::from(d)) as u32;
        rem = cur % u64::from(d);
    }
}

fn fx_mul_small(a: &mut Fixed, m: u32) {
    let mut carry: u64 = 0;
    for limb in a.iter_mut().rev() {
        let cur = u64::from(*limb) * u64::from(m) + carry;
        *limb = cur as u32;
        carry = cur >> 32;
    }
    assert_eq!(carry, 0, "fixed-point overflow");
}

fn fx_add(a: &mut Fixed, b: &Fixed) {
    let mut carry: u64 = 0;
    for (x, y) in a.iter_mut().rev().zip(b.iter().rev()) {
        let cur = u64::from(*x) + u64::from(*y) + carry;
        *x = cur as u32;
        carry = cur >> 32;
    }
    assert_eq!(carry, 0, "fixed-point overflow");
}

fn fx_sub(a: &mut Fixed, b: &Fixed) {
    let mut borrow: i64 = 0;
    for (x, y) in a.iter_mut().rev().zip(b.iter().rev()) {
        let cur = i64::from(*x) - i64::from(*y) - borrow;
        if cur < 0 {
            *x = (cur + (1i64 << 32)) as u32;
            borrow = 1;
        } else {
            *x = cur as u32;
            borrow = 0;
        }
    }
    assert_eq!(borrow, 0, "fixed-point underflow");
}

fn fx_is_zero(a: &Fixed) -> bool {
    a.iter().all(|&l| l == 0)
}

/// arctan(1/x) = sum_{k>=0} (-1)^k / ((2k+1) x^(2k+1)), to `limbs` limbs (truncating).
fn arctan_inv(x: u32, limbs: usize) -> Fixed {
    let mut power: Fixed = vec![0; limbs]; // 1 / x^(2k+1)
    power[0] = 1;
    fx_div_small(&mut power, x);
    let mut sum = power.clone();
    let mut k: u32 = 1;
    loop {
        fx_div_small(&mut power, x * x);
        let mut term = power.clone();
        fx_div_small(&mut term, 2 * k + 1);
        if fx_is_zero(&term) {
            break;
        }
        if k % 2 == 1 {
            fx_sub(&mut sum, &term);
        } else {
            fx_add(&mut sum, &term);
        }
        k += 1;
    }
    sum
}

/// The first `n` 32-bit words of the fractional part of pi (word 0 = 0x243F6A88), computed
/// with Machin's formula.
pub fn pi_fraction_words_machin(n: usize) -> Vec<u32> {
    // 8 guard limbs (256 bits) absorb the truncation errors of the ~10^4 series terms
    // (each at most one unit in the last limb, times 16 resp. 4).
    let limbs = 1 + n + 8;
    let mut a = arctan_inv(5, limbs);
    fx_mul_small(&mut a, 16);
    let mut b = arctan_inv(239, limbs);
    fx_mul_small(&mut b, 4);
    fx_sub(&mut a, &b);
    assert_eq!(a[0], 3);
    // The result is only trustworthy if the guard limbs are not all-ones / all-zeros next to
    // the boundary (a carry could then still propagate); check the first guard limb.
    assert!(a[1 + n] != 0 && a[1 + n] != u32::MAX, "ambiguous rounding, add guard limbs");
    a[1..1 + n].to_vec()
}

/// The 32-bit words spelled by the embedded hexadecimal digits of pi.
pub fn pi_fraction_words_embedded() -> Vec<u32> {
    let d = PI_FRAC_HEX.as_bytes();
    assert_eq!(d.len(), 8 * (18 + 4 * 256));
    let mut words = Vec::with_capacity(d.len() / 8);
    for chunk in d.chunks(8) {
        let mut w = 0u32;
        for &c in chunk {
            let v = match c {
                b'0'..=b'9' => c - b'0',
                b'A'..=b'F' => c - b'A' + 10,
                _ => panic!("bad hex digit in PI_FRAC_HEX"),
            };
            w = (w << 4) | u32::from(v);
        }
        words.push(w);
    }
    words
}

/// True iff every embedded digit equals the in-Rust Machin computation (all 1042 words).
pub fn pi_hex_matches_machin() -> bool {
    pi_fraction_words_embedded() == pi_fraction_words_machin(18 + 4 * 256)
}

fn pi_tables() -> &'static ([u32; 18], [[u32; 256]; 4]) {
    static TABLES: OnceLock<([u32; 18], [[u32; 256]; 4])> = OnceLock::new();
    TABLES.get_or_init(|| {
        let w = pi_fraction_words_embedded();
        let mut p = [0u32; 18];
        let mut s = [[0u32; 256]; 4];
        p.copy_from_slice(&w[..18]);
        for (i, sbox) in s.iter_mut().enumerate() {
            sbox.copy_from_slice(&w[18 + 256 * i..18 + 256 * (i + 1)]);
        }
        (p, s)
    })
}

// ---------------------------------------------------------------------------------------------
// Blowfish
// ---------------------------------------------------------------------------------------------

#[derive(Clone)]
pub struct Blowfish {
    pub p: [u32; 18],
    pub s: [[u32; 256]; 4],
}

/// Next big-endian 32-bit word of `data`, read cyclically from byte position `*pos`.
fn next_word_cyclic(data: &[u8], pos: &mut usize) -> u32 {
    let mut w = 0u32;
    for _ in 0..4 {
        w = (w << 8) | u32::from(data[*pos]);
        *pos = (*pos + 1) % data.len();
    }
    w
}

impl Blowfish {
    pub const BLOCK: usize = 8;

    /// Standard Blowfish key schedule; key of 4..=56 bytes (32..448 bits).
    pub fn new(key: &[u8]) -> Option<Self> {
        if key.len() < 4 || key.len() > 56 {
            return None;
        }
        let mut st = Self::init_state();
        st.expand_key(key);
        Some(st)
    }

    /// InitState(): P and S filled with the hexadecimal digits of pi, no key.
    pub fn init_state() -> Blowfish {
        let (p, s) = pi_tables();
        Blowfish { p: *p, s: *s }
    }

    /// Schneier's F: split x into four bytes a,b,c,d (a most significant);
    /// F = ((S1[a] + S2[b] mod 2^32) XOR S3[c]) + S4[d] mod 2^32.
    fn f(&self, x: u32) -> u32 {
        let a = (x >> 24) as usize;
        let b = ((x >> 16) & 0xff) as usize;
        let c = ((x >> 8) & 0xff) as usize;
        let d = (x & 0xff) as usize;
        (self.s[0][a].wrapping_add(self.s[1][b]) ^ self.s[2][c]).wrapping_add(self.s[3][d])
    }

    /// Encrypt (xL, xR).
    pub fn encrypt_words(&self, lr: [u32; 2]) -> [u32; 2] {
        let (mut xl, mut xr) = (lr[0], lr[1]);
        for i in 0..16 {
            xl ^= self.p[i];
            xr ^= self.f(xl);
            std::mem::swap(&mut xl, &mut xr);
        }
        std::mem::swap(&mut xl, &mut xr); // undo the last swap
        xr ^= self.p[16];
        xl ^= self.p[17];
        [xl, xr]
    }

    /// Decrypt (xL, xR): the same network with P used in reverse order.
    pub fn decrypt_words(&self, lr: [u32; 2]) -> [u32; 2] {
        let (mut xl, mut xr) = (lr[0], lr[1]);
        for i in (2..18).rev() {
            xl ^= self.p[i];
            xr ^= self.f(xl);
            std::mem::swap(&mut xl, &mut xr);
        }
        std::mem::swap(&mut xl, &mut xr);
        xr ^= self.p[1];
        xl ^= self.p[0];
        [xl, xr]
    }

    /// ExpandKey(state, salt, key) of Provos & Mazieres, for any non-empty salt: XOR the key
    /// (cyclically, big-endian words) into P; then repeatedly XOR the next 64 bits of the
    /// salt (cyclically, never reset) into the running block, encrypt it with the current
    /// state, and store the result into the next two words of P, then of S1..S4.
    pub fn salted_expand_key(&mut self, salt: &[u8], key: &[u8]) {
        assert!(!salt.is_empty() && !key.is_empty());
        let mut kpos = 0;
        for i in 0..18 {
            self.p[i] ^= next_word_cyclic(key, &mut kpos);
        }
        let mut spos = 0;
        let mut block = [0u32; 2];
        for i in 0..9 {
            block[0] ^= next_word_cyclic(salt, &mut spos);
            block[1] ^= next_word_cyclic(salt, &mut spos);
            block = self.encrypt_words(block);
            self.p[2 * i] = block[0];
            self.p[2 * i + 1] = block[1];
        }
        for b in 0..4 {
            for i in 0..128 {
                block[0] ^= next_word_cyclic(salt, &mut spos);
                block[1] ^= next_word_cyclic(salt, &mut spos);
                block = self.encrypt_words(block);
                self.s[b][2 * i] = block[0];
                self.s[b][2 * i + 1] = block[1];
            }
        }
    }

    /// ExpandKey(state, 0, key): with an all-zero 128-bit salt this is exactly the standard
    /// Blowfish key schedule applied to the current state.
    pub fn expand_key(&mut self, key: &[u8]) {
        self.salted_expand_key(&[0u8; 16], key);
    }

    pub fn encrypt(&self, block: &mut [u8]) {
        assert_eq!(block.len(), Self::BLOCK);
        let l = u32::from_be_bytes([block[0], block[1], block[2], block[3]]);
        let r = u32::from_be_bytes([block[4], block[5], block[6], block[7]]);
        let [l, r] = self.encrypt_words([l, r]);
        block[..4].copy_from_slice(&l.to_be_bytes());
        block[4..].copy_from_slice(&r.to_be_bytes());
    }

    pub fn decrypt(&self, block: &mut [u8]) {
        assert_eq!(block.len(), Self::BLOCK);
        let l = u32::from_be_bytes([block[0], block[1], block[2], block[3]]);
        let r = u32::from_be_bytes([block[4], block[5], block[6], block[7]]);
        let [l, r] = self.decrypt_words([l, r]);
        block[..4].copy_from_slice(&l.to_be_bytes());
        block[4..].copy_from_slice(&r.to_be_bytes());
    }

    /// Same permutation of (L, R), halves read/written little-endian.
    pub fn encrypt_le(&self, block: &mut [u8]) {
        assert_eq!(block.len(), Self::BLOCK);
        let l = u32::from_le_bytes([block[0], block[1], block[2], block[3]]);
        let r = u32::from_le_bytes([block[4], block[5], block[6], block[7]]);
        let [l, r] = self.encrypt_words([l, r]);
        block[..4].copy_from_slice(&l.to_le_bytes());
        block[4..].copy_from_slice(&r.to_le_bytes());
    }

    pub fn decrypt_le(&self, block: &mut [u8]) {
        assert_eq!(block.len(), Self::BLOCK);
        let l = u32::from_le_bytes([block[0], block[1], block[2], block[3]]);
        let r = u32::from_le_bytes([block[4], block[5], block[6], block[7]]);
        let [l, r] = self.decrypt_words([l, r]);
        block[..4].copy_from_slice(&l.to_le_bytes());
        block[4..].copy_from_slice(&r.to_le_bytes());
    }
}

// ---------------------------------------------------------------------------------------------
// bcrypt
// ---------------------------------------------------------------------------------------------

/// EksBlowfishSetup(cost, salt, key).
pub fn eks_blowfish_setup(cost: u32, salt: &[u8; 16], key: &[u8]) -> Blowfish {
    assert!(cost < 32);
    let mut state = Blowfish::init_state();
    state.salted_expand_key(salt, key);
    for _ in 0..(1u64 << cost) {
        state.expand_key(key);
        state.expand_key(salt);
    }
    state
}

/// bcrypt core: `key` is the password *already* NUL-terminated and truncated to 72 bytes
/// (1..=72 bytes). Returns the 24 bytes of "OrpheanBeholderScryDoubt" encrypted 64 times in ECB
/// mode (the printed hash uses only the first 23 of them).
pub fn bcrypt_raw(cost: u32, salt: &[u8; 16], key: &[u8]) -> [u8; 24] {
    assert!(!key.is_empty() && key.len() <= 72);
    let state = eks_blowfish_setup(cost, salt, key);
    let mut ctext = *b"OrpheanBeholderScryDoubt";
    for _ in 0..64 {
        for blk in ctext.chunks_mut(8) {
            state.encrypt(blk);
        }
    }
    ctext
}

const BCRYPT_B64: &[u8; 64] = b"./ABCDEFGHIJKLMNOPQRSTUVWXYZabcdefghijklmnopqrstuvwxyz0123456789";

/// bcrypt's base64: ordinary MSB-first 6-bit grouping, own alphabet, no padding.
pub fn bcrypt_b64_encode(data: &[u8]) -> String {
    let mut out = String::new();
    let mut acc: u32 = 0;
    let mut bits = 0;
    for &b in data {
        acc = (acc << 8) | u32::from(b);
        bits += 8;
        while bits >= 6 {
            bits -= 6;
            out.push(BCRYPT_B64[((acc >> bits) & 63) as usize] as char);
        }
    }
    if bits > 0 {
        out.push(BCRYPT_B64[((acc << (6 - bits)) & 63) as usize] as char);
    }
    out
}

/// Inverse of [`bcrypt_b64_encode`] (trailing bits that do not fill a byte are dropped).
pub fn bcrypt_b64_decode(s: &str) -> Option<Vec<u8>> {
    let mut out = Vec::new();
    let mut acc: u32 = 0;
    let mut bits = 0;
    for c in s.bytes() {
        let v = BCRYPT_B64.iter().position(|&x| x == c)? as u32;
        acc = (acc << 6) | v;
        bits += 6;
        if bits >= 8 {
            bits -= 8;
            out.push(((acc >> bits) & 0xff) as u8);
        }
    }
    Some(out)
}

/// `$2b$NN$<22 salt chars><31 hash chars>`; `$2b$` semantics: key = password || 0x00, truncated
/// to 72 bytes. `password` must not contain NUL bytes to be comparable with crypt(3).
pub fn bcrypt_hash_string(cost: u32, salt: &[u8; 16], password: &[u8]) -> String {
    let mut key = password.to_vec();
    key.push(0);
    key.truncate(72);
    let raw = bcrypt_raw(cost, salt, &key);
    format!("$2b${:02}${}{}", cost, bcrypt_b64_encode(salt), bcrypt_b64_encode(&raw[..23]))
}

#[cfg(test)]
mod tests {
    use super::*;

    fn hx(s: &str) -> Vec<u8> {
        (0..s.len() / 2).map(|i| u8::from_str_radix(&s[2 * i..2 * i + 2], 16).unwrap()).collect()
    }

    /// Landmarks of the pi tables as printed in Schneier's paper / reference source.
    #[test]
    fn pi_landmarks() {
        let st = Blowfish::init_state();
        assert_eq!(st.p[0], 0x243F6A88);
        assert_eq!(st.p[1], 0x85A308D3);
        assert_eq!(st.p[17], 0x8979FB1B);
        assert_eq!(st.s[0][0], 0xD1310BA6);
        assert_eq!(st.s[0][1], 0x98DFB5AC);
        assert_eq!(st.s[3][255], 0x3AC372E6);
    }

    /// All 8336 embedded digits against the in-Rust Machin computation.
    #[test]
    #[cfg_attr(miri, ignore)] // big-number loop: > 15 min under Miri
    fn pi_hex_matches_machin_all_words() {
        assert!(pi_hex_matches_machin());
    }

    /// Third method for a prefix (first 64 words = 512 hex digits): the
    /// Bailey-Borwein-Plouffe digit-extraction formula in floating point.
    #[test]
    #[cfg_attr(miri, ignore)]
    fn pi_prefix_by_bbp() {
        fn series(j: u64, n: u64) -> f64 {
            // frac( sum_k 16^(n-k) / (8k+j) )
            let mut s = 0.0f64;
            for k in 0..=n {
                let m = 8 * k + j;
                // 16^(n-k) mod m by square and multiply
                let mut e = n - k;
                let mut base = 16u128 % u128::from(m);
                let mut r = 1u128 % u128::from(m);
                while e > 0 {
                    if e & 1 == 1 {
                        r = r * base % u128::from(m);
                    }
                    base = base * base % u128::from(m);
                    e >>= 1;
                }
                s += r as f64 / m as f64;
                s -= s.floor();
            }
            let mut k = n + 1;
            let mut pw = 1.0f64 / 16.0;
            while pw > 1e-17 {
                s += pw / (8 * k + j) as f64;
                pw /= 16.0;
                k += 1;
            }
            s - s.floor()
        }
        fn hex_digits_from(n: u64, count: usize) -> Vec<u8> {
            let x = 4.0 * series(1, n) - 2.0 * series(4, n) - series(5, n) - series(6, n);
            let mut x = x - x.floor();
            let mut out = Vec::new();
            for _ in 0..count {
                x *= 16.0;
                let d = x.floor();
                out.push(d as u8);
                x -= d;
            }
            out
        }
        let words = pi_fraction_words_embedded()[..64].to_vec();
        assert_eq!(words, pi_fraction_words_machin(64));
        let mut digits = Vec::new();
        for w in &words {
            for i in (0..8).rev() {
                digits.push(((w >> (4 * i)) & 15) as u8);
            }
        }
        // 4 digits per BBP evaluation (conservative for f64), every position of the first
        // 64 words.
        let mut pos = 0;
        while pos < digits.len() {
            let got = hex_digits_from(pos as u64, 4);
            assert_eq!(&digits[pos..pos + 4], &got[..], "hex digits at {pos}");
            pos += 4;
        }
    }

    /// Test vectors distributed with Schneier's reference implementation (Eric Young's
    /// "vectors.txt", https://www.schneier.com/code/vectors.txt), ECB section: key, clear, cipher.
    #[test]
    fn schneier_ecb_vectors() {
        let v = [
            ("0000000000000000", "0000000000000000", "4EF997456198DD78"),
            ("FFFFFFFFFFFFFFFF", "FFFFFFFFFFFFFFFF", "51866FD5B85ECB8A"),
            ("3000000000000000", "1000000000000001", "7D856F9A613063F2"),
            ("1111111111111111", "1111111111111111", "2466DD878B963C9D"),
            ("0123456789ABCDEF", "1111111111111111", "61F9C3802281B096"),
            ("1111111111111111", "0123456789ABCDEF", "7D0CC630AFDA1EC7"),
            ("FEDCBA9876543210", "0123456789ABCDEF", "0ACEAB0FC6A0A28D"),
            ("7CA110454A1A6E57", "01A1D6D039776742", "59C68245EB05282B"),
            ("0131D9619DC1376E", "5CD54CA83DEF57DA", "B1B8CC0B250F09A0"),
            ("07A1133E4A0B2686", "0248D43806F67172", "1730E5778BEA1DA4"),
            ("3849674C2602319E", "51454B582DDF440A", "A25E7856CF2651EB"),
            ("04B915BA43FEB5B6", "42FD443059577FA2", "353882B109CE8F1A"),
            ("0113B970FD34F2CE", "059B5E0851CF143A", "48F4D0884C379918"),
            ("0170F175468FB5E6", "0756D8E0774761D2", "432193B78951FC98"),
            ("43297FAD38E373FE", "762514B829BF486A", "13F04154D69D1AE5"),
            ("07A7137045DA2A16", "3BDD119049372802", "2EEDDA93FFD39C79"),
            ("04689104C2FD3B2F", "26955F6835AF609A", "D887E0393C2DA6E3"),
            ("37D06BB516CB7546", "164D5E404F275232", "5F99D04F5B163969"),
            ("1F08260D1AC2465E", "6B056E18759F5CCA", "4A057A3B24D3977B"),
            ("584023641ABA6176", "004BD6EF09176062", "452031C1E4FADA8E"),
            ("025816164629B007", "480D39006EE762F2", "7555AE39F59B87BD"),
            ("49793EBC79B3258F", "437540C8698F3CFA", "53C55F9CB49FC019"),
            ("4FB05E1515AB73A7", "072D43A077075292", "7A8E7BFA937E89A3"),
            ("49E95D6D4CA229BF", "02FE55778117F12A", "CF9C5D7A4986ADB5"),
            ("018310DC409B26D6", "1D9D5C5018F728C2", "D1ABB290658BC778"),
            ("1C587F1C13924FEF", "305532286D6F295A", "55CB3774D13EF201"),
            ("0101010101010101", "0123456789ABCDEF", "FA34EC4847B268B2"),
            ("1F1F1F1F0E0E0E0E", "0123456789ABCDEF", "A790795108EA3CAE"),
            ("E0FEE0FEF1FEF1FE", "0123456789ABCDEF", "C39E072D9FAC631D"),
            ("0000000000000000", "FFFFFFFFFFFFFFFF", "014933E0CDAFF6E4"),
            ("FFFFFFFFFFFFFFFF", "0000000000000000", "F21E9A77B71C49BC"),
            ("0123456789ABCDEF", "0000000000000000", "245946885754369A"),
            ("FEDCBA9876543210", "FFFFFFFFFFFFFFFF", "6B5C5A9C5D9E0A5A"),
        ];
        for (k, p, c) in v {
            let bf = Blowfish::new(&hx(k)).unwrap();
            let mut b = hx(p);
            bf.encrypt(&mut b);
            assert_eq!(b, hx(c), "key {k}");
            bf.decrypt(&mut b);
            assert_eq!(b, hx(p), "key {k}");
        }
    }

    /// Same file, "set_key test data": data FEDCBA9876543210, key = first n bytes of
    /// F0E1D2C3B4A5968778695A4B3C2D1E0F0011223344556677, n = 1..=24 (n < 4 is outside `new`'s
    /// range and exercised through the state functions).
    #[test]
    fn schneier_set_key_vectors() {
        let key = hx("F0E1D2C3B4A5968778695A4B3C2D1E0F0011223344556677");
        let c = [
            "F9AD597C49DB005E", "E91D21C1D961A6D6", "E9C2B70A1BC65CF3", "BE1E639408640F05",
            "B39E44481BDB1E6E", "9457AA83B1928C0D", "8BB77032F960629D", "E87A244E2CC85E82",
            "15750E7A4F4EC577", "122BA70B3AB64AE0", "3A833C9AFFC537F6", "9409DA87A90F6BF2",
            "884F80625060B8B4", "1F85031C19E11968", "79D9373A714CA34F", "93142887EE3BE15C",
            "03429E838CE2D14B", "A4299E27469FF67B", "AFD5AED1C1BC96A8", "10851C0E3858DA9F",
            "E6F51ED79B9DB21F", "64A6E14AFD36B46F", "80C7D7D45A5479AD", "05044B62FA52D080",
        ];
        for n in 1..=24 {
            let bf = if n >= 4 {
                Blowfish::new(&key[..n]).unwrap()
            } else {
                assert!(Blowfish::new(&key[..n]).is_none());
                let mut st = Blowfish::init_state();
                st.expand_key(&key[..n]);
                st
            };
            let mut b = hx("FEDCBA9876543210");
            bf.encrypt(&mut b);
            assert_eq!(b, hx(c[n - 1]), "key length {n}");
            bf.decrypt(&mut b);
            assert_eq!(b, hx("FEDCBA9876543210"));
        }
    }

    #[test]
    fn key_length_limits() {
        assert!(Blowfish::new(&[0u8; 3]).is_none());
        assert!(Blowfish::new(&[0u8; 4]).is_some());
        assert!(Blowfish::new(&[0u8; 56]).is_some());
        assert!(Blowfish::new(&[0u8; 57]).is_none());
    }

    #[test]
    fn le_variant_is_byte_swapped_halves() {
        let bf = Blowfish::new(&hx("0123456789ABCDEF")).unwrap();
        // Schneier vector 0123456789ABCDEF / 1111111111111111 -> 61F9C3802281B096, halves reversed.
        let mut b = hx("1111111111111111");
        bf.encrypt_le(&mut b);
        assert_eq!(b, hx("80C3F96196B08122"));
        bf.decrypt_le(&mut b);
        assert_eq!(b, hx("1111111111111111"));
    }

    /// bcrypt vectors: OpenBSD regress / openwall crypt_blowfish "U*U" vector (here with the
    /// $2b$ prefix, identical computation for this password), and the empty-password vector.
    #[test]
    #[cfg_attr(miri, ignore)] // 2 * (2*32 + 1) key expansions
    fn bcrypt_vectors() {
        let salt: [u8; 16] = bcrypt_b64_decode("CCCCCCCCCCCCCCCCCCCCC.").unwrap().try_into().unwrap();
        assert_eq!(bcrypt_b64_encode(&salt), "CCCCCCCCCCCCCCCCCCCCC.");
        assert_eq!(
            bcrypt_hash_string(5, &salt, b"U*U"),
            "$2b$05$CCCCCCCCCCCCCCCCCCCCC.E5YPO9kmyuRGyh0XouQYb4YMJKvyOeW"
        );
        assert_eq!(
            bcrypt_hash_string(5, &salt, b""),
            "$2b$05$CCCCCCCCCCCCCCCCCCCCC.7uG0VCzI2bS7j6ymqJi9CdcdxiRTWNy"
        );
    }
}
