//! RC5-w/r/b reference model, written from R. L. Rivest, "The RC5 Encryption Algorithm"
//! (FSE 1994, revised 1997), sections 3 and 4.
//!
//! * `w` = word size in bits (8, 16, 32, 64, 128), `r` = rounds (0..=255),
//!   `b` = key length in bytes (0..=255).
//! * A block is two `w`-bit words A, B; both are read/written little-endian, A first
//!   (paper section 4, "little-endian conventions").
//! * Magic constants: `P_w = Odd((e-2) 2^w)`, `Q_w = Odd((phi-1) 2^w)` where `Odd(x)` is the odd
//!   integer nearest to `x`. They are *computed* here: `e-2` as the series sum_{k>=2} 1/k! in
//!   256-bit fixed point, `phi-1` as the limit of F(n)/F(n+1) (Fibonacci numbers) by binary long
//!   division.
//!
//! The model is run-time generic: words are kept in a `u128` and reduced with a mask.

/// Number of 32-bit limbs of the fixed-point fractions (256 fractional bits).
const FRAC_LIMBS: usize = 8;

/// First 256 fractional bits of e - 2 = sum_{k>=2} 1/k!, as big-endian 32-bit limbs.
///
/// Fixed point with one integer limb in front. Every division truncates, so the result is
/// at most (number of terms) units of 2^-256 below the true value: far below the 2^-128
/// resolution needed for w = 128 (the bits of e-2 following bit 128 are 0x62E9..., so there is
/// no borderline case).
fn frac_e_minus_2() -> [u32; FRAC_LIMBS] {
    // term = 1/k!, starting with 1/1! = 1.0
    let mut term = [0u32; FRAC_LIMBS + 1];
    term[0] = 1;
    let mut sum = [0u32; FRAC_LIMBS + 1];
    let mut k: u32 = 1;
    loop {
        k += 1;
        // term /= k  (schoolbook long division by a small number, most significant limb first)
        let mut rem: u64 = 0;
        for limb in term.iter_mut() {
            let cur = (rem << 32) | (*limb as u64);
            *limb = (cur / k as u64) as u32;
            rem = cur % k as u64;
        }
        if term.iter().all(|&l| l == 0) {
            break;
        }
        // sum += term
        let mut carry: u64 = 0;
        for i in (0..FRAC_LIMBS + 1).rev() {
            let s = sum[i] as u64 + term[i] as u64 + carry;
            sum[i] = s as u32;
            carry = s >> 32;
        }
    }
    // sum = e - 2 = 0.718...; integer limb must be zero
    assert_eq!(sum[0], 0);
    let mut out = [0u32; FRAC_LIMBS];
    out.copy_from_slice(&sum[1..]);
    out
}

// --- tiny little-endian big integers (12 x 32 bits) for the Fibonacci quotient -------------
const BIG: usize = 12;
type Big = [u32; BIG];

fn big_add(a: &Big, b: &Big) -> Big {
    let mut r = [0u32; BIG];
    let mut carry = 0u64;
    for i in 0..BIG {
        let s = a[i] as u64 + b[i] as u64 + carry;
        r[i] = s as u32;
        carry = s >> 32;
    }
    assert_eq!(carry, 0);
    r
}
fn big_sub(a: &Big, b: &Big) -> Big {
    let mut r = [0u32; BIG];
    let mut borrow = 0i64;
    for i in 0..BIG {
        let mut d = a[i] as i64 - b[i] as i64 - borrow;
        if d < 0 {
            d += 1 << 32;
            borrow = 1;
        } else {
            borrow = 0;
        }
        r[i] = d as u32;
    }
    assert_eq!(borrow, 0);
    r
}
fn big_ge(a: &Big, b: &Big) -> bool {
    for i in (0..BIG).rev() {
        if a[i] != b[i] {
            return a[i] > b[i];
        }
    }
    true
}
fn big_shl1(a: &Big) -> Big {
    let mut r = [0u32; BIG];
    let mut carry = 0u32;
    for i in 0..BIG {
        r[i] = (a[i] << 1) | carry;
        carry = a[i] >> 31;
    }
    assert_eq!(carry, 0);
    r
}

/// First 256 fractional bits of phi - 1 = (sqrt(5) - 1)/2 = lim F(n)/F(n+1), big-endian limbs.
///
/// |F(n)/F(n+1) - (phi-1)| < 1/F(n+1)^2; with n = 400, F(n+1) > 2^276 so the quotient agrees
/// with phi-1 to better than 2^-550. (The bits of phi-1 following bit 128 are 0x1082..., no
/// borderline case.)
fn frac_phi_minus_1() -> [u32; FRAC_LIMBS] {
    let mut f0: Big = [0; BIG]; // F(n)
    let mut f1: Big = [0; BIG]; // F(n+1)
    f0[0] = 1;
    f1[0] = 1;
    for _ in 0..400 {
        let f2 = big_add(&f0, &f1);
        f0 = f1;
        f1 = f2;
    }
    // binary long division f0 / f1 (f0 < f1): one quotient bit per step
    let mut rem = f0;
    let mut out = [0u32; FRAC_LIMBS];
    for bit in 0..(32 * FRAC_LIMBS) {
        rem = big_shl1(&rem);
        if big_ge(&rem, &f1) {
            rem = big_sub(&rem, &f1);
            out[bit / 32] |= 1 << (31 - (bit % 32));
        }
    }
    out
}

/// Odd(frac * 2^w) for 1 <= w <= 128: the odd integer nearest to x is floor(x) with its low bit
/// forced to one (x is irrational, so there is never a tie).
fn odd_of(frac: &[u32; FRAC_LIMBS], w: u32) -> u128 {
    let top: u128 = ((frac[0] as u128) << 96)
        | ((frac[1] as u128) << 64)
        | ((frac[2] as u128) << 32)
        | (frac[3] as u128);
    (top >> (128 - w)) | 1
}

/// The magic constants (P_w, Q_w). The two fractions are computed once per process.
pub fn magic(w: u32) -> (u128, u128) {
    static FRACS: std::sync::OnceLock<([u32; FRAC_LIMBS], [u32; FRAC_LIMBS])> =
        std::sync::OnceLock::new();
    let (e, phi) = FRACS.get_or_init(|| (frac_e_minus_2(), frac_phi_minus_1()));
    (odd_of(e, w), odd_of(phi, w))
}

pub struct Rc5 {
    w: u32,
    r: u32,
    mask: u128,
    /// expanded key table S[0 .. 2(r+1)]
    s: Vec<u128>,
}

impl Rc5 {
    /// `w_bits` in {8,16,32,64,128}, `rounds` in 0..=255, `key.len()` in 0..=255.
    pub fn new(w_bits: u32, rounds: u32, key: &[u8]) -> Option<Self> {
        if ![8, 16, 32, 64, 128].contains(&w_bits) || rounds > 255 || key.len() > 255 {
            return None;
        }
        let w = w_bits;
        let mask: u128 = if w == 128 { u128::MAX } else { (1u128 << w) - 1 };
        let rotl = |x: u128, n: u128| -> u128 {
            let n = (n % w as u128) as u32;
            if n == 0 {
                x & mask
            } else {
                ((x << n) | (x >> (w - n))) & mask
            }
        };
        let b = key.len();
        let u = (w / 8) as usize;
        // c = max(1, ceil(b/u))
        let c = core::cmp::max(1, (b + u - 1) / u);
        // Step 1: key bytes -> L[0..c-1]
        let mut l = vec![0u128; c];
        for i in (0..b).rev() {
            l[i / u] = (rotl(l[i / u], 8).wrapping_add(key[i] as u128)) & mask;
        }
        // Step 2: S[0] = P_w; S[i] = S[i-1] + Q_w
        let (p, q) = magic(w);
        let t = 2 * (rounds as usize + 1);
        let mut s = vec![0u128; t];
        s[0] = p;
        for i in 1..t {
            s[i] = s[i - 1].wrapping_add(q) & mask;
        }
        // Step 3: mix in the secret key
        let (mut i, mut j) = (0usize, 0usize);
        let (mut a, mut bb) = (0u128, 0u128);
        for _ in 0..3 * core::cmp::max(t, c) {
            s[i] = rotl(s[i].wrapping_add(a).wrapping_add(bb) & mask, 3);
            a = s[i];
            let ab = a.wrapping_add(bb) & mask;
            l[j] = rotl(l[j].wrapping_add(ab) & mask, ab);
            bb = l[j];
            i = (i + 1) % t;
            j = (j + 1) % c;
        }
        Some(Rc5 { w, r: rounds, mask, s })
    }

    /// Block length in bytes (2 words).
    pub fn block_len(&self) -> usize {
        (2 * self.w / 8) as usize
    }

    fn rotl(&self, x: u128, n: u128) -> u128 {
        let n = (n % self.w as u128) as u32;
        if n == 0 {
            x & self.mask
        } else {
            ((x << n) | (x >> (self.w - n))) & self.mask
        }
    }
    fn rotr(&self, x: u128, n: u128) -> u128 {
        let n = (n % self.w as u128) as u32;
        if n == 0 {
            x & self.mask
        } else {
            ((x >> n) | (x << (self.w - n))) & self.mask
        }
    }
    fn load(&self, bytes: &[u8]) -> u128 {
        let mut x = 0u128;
        for (i, &v) in bytes.iter().enumerate() {
            x |= (v as u128) << (8 * i);
        }
        x
    }
    fn store(&self, x: u128, bytes: &mut [u8]) {
        for (i, v) in bytes.iter_mut().enumerate() {
            *v = (x >> (8 * i)) as u8;
        }
    }

    pub fn encrypt(&self, block: &mut [u8]) {
        assert_eq!(block.len(), self.block_len());
        let u = (self.w / 8) as usize;
        let m = self.mask;
        let mut a = self.load(&block[..u]);
        let mut b = self.load(&block[u..]);
        a = a.wrapping_add(self.s[0]) & m;
        b = b.wrapping_add(self.s[1]) & m;
        for i in 1..=self.r as usize {
            a = self.rotl(a ^ b, b).wrapping_add(self.s[2 * i]) & m;
            b = self.rotl(b ^ a, a).wrapping_add(self.s[2 * i + 1]) & m;
        }
        self.store(a, &mut block[..u]);
        self.store(b, &mut block[u..]);
    }

    pub fn decrypt(&self, block: &mut [u8]) {
        assert_eq!(block.len(), self.block_len());
        let u = (self.w / 8) as usize;
        let m = self.mask;
        let mut a = self.load(&block[..u]);
        let mut b = self.load(&block[u..]);
        for i in (1..=self.r as usize).rev() {
            b = self.rotr(b.wrapping_sub(self.s[2 * i + 1]) & m, a) ^ a;
            a = self.rotr(a.wrapping_sub(self.s[2 * i]) & m, b) ^ b;
        }
        b = b.wrapping_sub(self.s[1]) & m;
        a = a.wrapping_sub(self.s[0]) & m;
        self.store(a, &mut block[..u]);
        self.store(b, &mut block[u..]);
    }
}

#[cfg(test)]
mod tests {
    use super::*;

    fn hex(s: &str) -> Vec<u8> {
        let s: String = s.chars().filter(|c| !c.is_whitespace()).collect();
        (0..s.len() / 2)
            .map(|i| u8::from_str_radix(&s[2 * i..2 * i + 2], 16).unwrap())
            .collect()
    }

    /// Magic constants as printed in Rivest's paper (section 4.3: w = 16, 32, 64) and in
    /// draft-krovetz-rc6-rc5-vectors-00 (w = 8, 128).
    #[test]
    fn magic_constants() {
        assert_eq!(magic(16), (0xB7E1, 0x9E37));
        assert_eq!(magic(32), (0xB7E15163, 0x9E3779B9));
        assert_eq!(magic(64), (0xB7E151628AED2A6B, 0x9E3779B97F4A7C15));
        assert_eq!(magic(8), (0xB7, 0x9F));
        assert_eq!(
            magic(128),
            (
                0xB7E151628AED2A6ABF7158809CF4F3C7,
                0x9E3779B97F4A7C15F39CC0605CEDC835
            )
        );
    }

    /// Definition check of the computed fractions, independent of the hex above:
    /// x = phi-1 satisfies x^2 + x = 1, checked on the top 64 bits with 128-bit arithmetic;
    /// e-2 is compared with the f64 value of e.
    #[test]
    fn magic_definition() {
        let f = frac_phi_minus_1();
        let x = ((f[0] as u128) << 32) | f[1] as u128; // floor((phi-1) 2^64)
        let one = 1u128 << 64;
        // x^2/2^64 + x < 2^64 <= (x+1)^2/2^64 + (x+1)
        assert!((x * x >> 64) + x < one);
        assert!(((x + 1) * (x + 1) >> 64) + (x + 1) >= one);
        let e = frac_e_minus_2();
        let approx = e[0] as f64 / 4294967296.0 + e[1] as f64 / 18446744073709551616.0;
        assert!((approx - (std::f64::consts::E - 2.0)).abs() < 1e-15);
    }

    /// RC5-32/12/16 examples from Rivest's paper (section "examples" of the revised report):
    /// each plaintext is the previous ciphertext. Words are printed in the paper as 32-bit
    /// numbers; here they are serialised little-endian.
    #[test]
    fn rivest_paper_32_12_16() {
        let v: [(&str, [u32; 2], [u32; 2]); 5] = [
            (
                "00000000000000000000000000000000",
                [0x00000000, 0x00000000],
                [0xEEDBA521, 0x6D8F4B15],
            ),
            (
                "915F4619BE41B2516355A50110A9CE91",
                [0xEEDBA521, 0x6D8F4B15],
                [0xAC13C0F7, 0x52892B5B],
            ),
            (
                "783348E75AEB0F2FD7B169BB8DC16787",
                [0xAC13C0F7, 0x52892B5B],
                [0xB7B3422F, 0x92FC6903],
            ),
            (
                "DC49DB1375A5584F6485B413B5F12BAF",
                [0xB7B3422F, 0x92FC6903],
                [0xB278C165, 0xCC97D184],
            ),
            (
                "5269F149D41BA0152497574D7F153125",
                [0xB278C165, 0xCC97D184],
                [0x15E444EB, 0x249831DA],
            ),
        ];
        for (key, pt, ct) in v.iter() {
            let c = Rc5::new(32, 12, &hex(key)).unwrap();
            let mut blk = Vec::new();
            blk.extend_from_slice(&pt[0].to_le_bytes());
            blk.extend_from_slice(&pt[1].to_le_bytes());
            let mut exp = Vec::new();
            exp.extend_from_slice(&ct[0].to_le_bytes());
            exp.extend_from_slice(&ct[1].to_le_bytes());
            let p0 = blk.clone();
            c.encrypt(&mut blk);
            assert_eq!(blk, exp);
            c.decrypt(&mut blk);
            assert_eq!(blk, p0);
        }
        // first vector in byte form
        let c = Rc5::new(32, 12, &[0u8; 16]).unwrap();
        let mut blk = [0u8; 8];
        c.encrypt(&mut blk);
        assert_eq!(blk.to_vec(), hex("21A5DBEE154B8F6D"));
    }

    /// Vectors of /repo/rc5/tests/mod.rs, whose header cites draft-krovetz-rc6-rc5-vectors-00
    /// (T. Krovetz, "Test Vectors for RC6 and RC5"). The draft itself lists RC5-8/12/4,
    /// 16/16/8, 32/20/16, 64/24/24 and 128/28/32; its 32/20/16 vector (not in the repository's
    /// file) is added here from the draft (recalled; this model reproduces the ciphertext). The 32/12/16 and 32/16/16 entries are taken as they
    /// stand in the repository's test file (same key/plaintext pattern, not in the draft);
    /// RC5-32/12/16 is independently pinned by Rivest's own vectors above.
    #[test]
    fn krovetz_draft() {
        let v: [(u32, u32, &str, &str, &str); 7] = [
            (
                32,
                20,
                "000102030405060708090A0B0C0D0E0F",
                "0001020304050607",
                "2A0EDC0E9431FF73",
            ),
            (8, 12, "00010203", "0001", "212A"),
            (16, 16, "0001020304050607", "00010203", "23A8D72E"),
            (
                32,
                12,
                "000102030405060708090A0B0C0D0E0F",
                "0001020304050607",
                "C8D3B3C486700CFA",
            ),
            (
                32,
                16,
                "000102030405060708090A0B0C0D0E0F",
                "0001020304050607",
                "3E2E95357027D896",
            ),
            (
                64,
                24,
                "000102030405060708090A0B0C0D0E0F1011121314151617",
                "000102030405060708090A0B0C0D0E0F",
                "A46772820EDBCE0235ABEA32AE7178DA",
            ),
            (
                128,
                28,
                "000102030405060708090A0B0C0D0E0F101112131415161718191A1B1C1D1E1F",
                "000102030405060708090A0B0C0D0E0F101112131415161718191A1B1C1D1E1F",
                "ECA5910921A4F4CFDD7AD7AD20A1FCBA068EC7A7CD752D68FE914B7FE180B440",
            ),
        ];
        for (w, r, key, pt, ct) in v.iter() {
            let c = Rc5::new(*w, *r, &hex(key)).unwrap();
            let mut blk = hex(pt);
            assert_eq!(blk.len(), c.block_len());
            c.encrypt(&mut blk);
            assert_eq!(blk, hex(ct), "RC5-{}/{}", w, r);
            c.decrypt(&mut blk);
            assert_eq!(blk, hex(pt));
        }
    }

    #[test]
    fn parameter_ranges() {
        assert!(Rc5::new(24, 12, &[0; 16]).is_none());
        assert!(Rc5::new(32, 256, &[0; 16]).is_none());
        assert!(Rc5::new(32, 12, &[0; 256]).is_none());
        // b = 0 and r = 0 are legal parameters (paper section 2)
        for &w in &[8u32, 16, 32, 64, 128] {
            for &(r, b) in &[(0u32, 0usize), (0, 255), (255, 0), (255, 255), (1, 1)] {
                let c = Rc5::new(w, r, &vec![0x5a; b]).unwrap();
                let mut blk: Vec<u8> = (0..c.block_len() as u8).collect();
                let p0 = blk.clone();
                c.encrypt(&mut blk);
                c.decrypt(&mut blk);
                assert_eq!(blk, p0);
            }
        }
    }

    /// Specification consequence: with b = 0 the paper sets c = 1 and L[0] = 0, which is the
    /// same L as for any all-zero key of 1..=u bytes, so the ciphers coincide.
    #[test]
    fn empty_key_equals_short_zero_key() {
        for &w in &[8u32, 16, 32, 64, 128] {
            for &r in &[0u32, 1, 12, 255] {
                let c0 = Rc5::new(w, r, &[]).unwrap();
                let c1 = Rc5::new(w, r, &[0]).unwrap();
                let cu = Rc5::new(w, r, &vec![0u8; (w / 8) as usize]).unwrap();
                let mut a: Vec<u8> = (0..c0.block_len()).map(|i| (i * 17 + 3) as u8).collect();
                let mut b = a.clone();
                let mut c = a.clone();
                c0.encrypt(&mut a);
                c1.encrypt(&mut b);
                cu.encrypt(&mut c);
                assert_eq!(a, b);
                assert_eq!(a, c);
            }
        }
    }
}
