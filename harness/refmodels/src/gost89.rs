//! Reference model of GOST 28147-89 / GOST R 34.12-2015 "Magma" (RFC 8891) with a
//! caller-supplied substitution set, written literally from RFC 8891 sections 4 and 5.
//!
//! Conventions
//! -----------
//! * Block: 8 bytes = `a_1 || a_0`, two big-endian 32-bit halves; bytes 0..4 are `a_1`
//!   (most significant half), bytes 4..8 are `a_0` (the half the round function is applied
//!   to first).
//! * Key: 32 bytes = `K_1 || ... || K_8` of RFC 8891 (eight big-endian 32-bit words; the
//!   task text / repository call them K0..K7).  Iteration keys: K_1..K_8 three times, then
//!   K_8..K_1.
//! * Substitution set: `sbox: &[[u8; 16]; 8]`, **row i is pi_i of RFC 8891**, i.e. it is
//!   applied to the i-th nibble of the 32-bit word *counted from the least significant
//!   nibble* (row 0 acts on bits 0..3, row 7 on bits 28..31); `sbox[i][x]` is pi_i(x).
//!   This is exactly the layout of the public constant `<S as magma::Sbox>::SBOX`.
//!   Every entry must be a nibble (< 16), since pi_i maps V_4 to V_4; `new` returns `None`
//!   for a table with an entry >= 16 (the specification gives such a table no meaning).
//!   Rows need NOT be bijective: any 8 x 16 table of nibbles is accepted.  `decrypt` is
//!   simply the same network with the iteration keys in reverse order, which is the
//!   inverse of `encrypt` for *every* table (Feistel structure).
//! * No expanded / byte-wide tables: the substitution is applied nibble by nibble.

/// id-tc26-gost-28147-param-Z: the substitution set fixed by GOST R 34.12-2015 / RFC 8891
/// section 4.1, rows pi_0' .. pi_7' as printed there.
pub const TC26: [[u8; 16]; 8] = [
    /* pi_0' */ [12, 4, 6, 2, 10, 5, 11, 9, 14, 8, 13, 7, 0, 3, 15, 1],
    /* pi_1' */ [6, 8, 2, 3, 9, 10, 5, 12, 1, 14, 4, 7, 11, 13, 0, 15],
    /* pi_2' */ [11, 3, 5, 8, 2, 15, 10, 13, 14, 1, 7, 4, 12, 9, 6, 0],
    /* pi_3' */ [12, 8, 2, 1, 13, 4, 15, 6, 7, 0, 10, 5, 3, 14, 9, 11],
    /* pi_4' */ [7, 15, 5, 10, 8, 1, 6, 13, 0, 9, 3, 14, 11, 4, 2, 12],
    /* pi_5' */ [5, 13, 15, 6, 9, 2, 12, 10, 11, 7, 8, 1, 4, 3, 14, 0],
    /* pi_6' */ [8, 14, 2, 5, 6, 9, 1, 12, 15, 4, 11, 0, 13, 10, 3, 7],
    /* pi_7' */ [1, 7, 14, 13, 0, 5, 8, 3, 4, 15, 10, 6, 9, 12, 11, 2],
];

/// t(a) = t(a_7 || ... || a_0) = pi_7(a_7) || ... || pi_0(a_0), a_i in V_4.
fn t(sbox: &[[u8; 16]; 8], a: u32) -> u32 {
    let mut r = 0u32;
    for i in 0..8 {
        let nib = ((a >> (4 * i)) & 0xF) as usize;
        let out = sbox[i][nib] as u32; // < 16, checked in `new`
        r |= out << (4 * i);
    }
    r
}

/// g[k](a) = ( t( Vec_32( Int_32(a) + Int_32(k) mod 2^32 ) ) ) <<< 11
fn g(sbox: &[[u8; 16]; 8], k: u32, a: u32) -> u32 {
    t(sbox, a.wrapping_add(k)).rotate_left(11)
}

/// G[k](a_1, a_0) = (a_0, g[k](a_0) xor a_1)
fn big_g(sbox: &[[u8; 16]; 8], k: u32, a1: u32, a0: u32) -> (u32, u32) {
    (a0, g(sbox, k, a0) ^ a1)
}

/// G*[k](a_1, a_0) = (g[k](a_0) xor a_1) || a_0
fn big_g_star(sbox: &[[u8; 16]; 8], k: u32, a1: u32, a0: u32) -> (u32, u32) {
    (g(sbox, k, a0) ^ a1, a0)
}

pub struct Gost89 {
    /// Iteration keys K_1..K_32 (index 0 = K_1).
    rk: [u32; 32],
    sbox: [[u8; 16]; 8],
}

impl Gost89 {
    pub const BLOCK: usize = 8;

    /// `key`: 32 bytes (else `None`).  `sbox`: see the module documentation (row i = pi_i,
    /// acting on nibble i counted from the least significant end; same layout as
    /// `magma::Sbox::SBOX`); `None` if some entry is >= 16.
    pub fn new(key: &[u8], sbox: &[[u8; 16]; 8]) -> Option<Self> {
        if key.len() != 32 {
            return None;
        }
        if sbox.iter().any(|row| row.iter().any(|&x| x >= 16)) {
            return None;
        }
        // K_1 = k_255..k_224, ..., K_8 = k_31..k_0
        let mut k = [0u32; 8];
        for i in 0..8 {
            k[i] = u32::from_be_bytes([key[4 * i], key[4 * i + 1], key[4 * i + 2], key[4 * i + 3]]);
        }
        let mut rk = [0u32; 32];
        // K_{i+8} = K_i, K_{i+16} = K_i, K_{i+24} = K_{9-i}, i = 1..8
        for i in 1..=8usize {
            rk[i - 1] = k[i - 1];
            rk[i + 8 - 1] = k[i - 1];
            rk[i + 16 - 1] = k[i - 1];
            rk[i + 24 - 1] = k[9 - i - 1];
        }
        Some(Gost89 { rk, sbox: *sbox })
    }

    fn split(block: &[u8]) -> (u32, u32) {
        let a1 = u32::from_be_bytes([block[0], block[1], block[2], block[3]]);
        let a0 = u32::from_be_bytes([block[4], block[5], block[6], block[7]]);
        (a1, a0)
    }

    fn join(block: &mut [u8], hi: u32, lo: u32) {
        block[..4].copy_from_slice(&hi.to_be_bytes());
        block[4..8].copy_from_slice(&lo.to_be_bytes());
    }

    /// E(a) = G*[K_32] G[K_31] ... G[K_2] G[K_1] (a_1, a_0)
    pub fn encrypt(&self, block: &mut [u8]) {
        assert_eq!(block.len(), Self::BLOCK);
        let (mut a1, mut a0) = Self::split(block);
        for i in 1..=31usize {
            let r = big_g(&self.sbox, self.rk[i - 1], a1, a0);
            a1 = r.0;
            a0 = r.1;
        }
        let (hi, lo) = big_g_star(&self.sbox, self.rk[31], a1, a0);
        Self::join(block, hi, lo);
    }

    /// D(a) = G*[K_1] G[K_2] ... G[K_31] G[K_32] (a_1, a_0)
    pub fn decrypt(&self, block: &mut [u8]) {
        assert_eq!(block.len(), Self::BLOCK);
        let (mut a1, mut a0) = Self::split(block);
        for i in (2..=32usize).rev() {
            let r = big_g(&self.sbox, self.rk[i - 1], a1, a0);
            a1 = r.0;
            a0 = r.1;
        }
        let (hi, lo) = big_g_star(&self.sbox, self.rk[0], a1, a0);
        Self::join(block, hi, lo);
    }

    /// Iteration keys K_1..K_32 (for tests / diagnostics).
    pub fn round_keys(&self) -> [u32; 32] {
        self.rk
    }
}

#[cfg(test)]
mod tests {
    use super::*;

    fn hx(s: &str) -> Vec<u8> {
        let s: String = s.chars().filter(|c| !c.is_whitespace()).collect();
        (0..s.len() / 2)
            .map(|i| u8::from_str_radix(&s[2 * i..2 * i + 2], 16).unwrap())
            .collect()
    }

    #[test]
    fn tc26_rows_are_permutations() {
        for row in TC26.iter() {
            let mut seen = [false; 16];
            for &x in row.iter() {
                assert!(x < 16 && !seen[x as usize]);
                seen[x as usize] = true;
            }
        }
    }

    // RFC 8891 appendix A.1 / GOST R 34.12-2015 A.2.1: transformation t
    #[test]
    fn t_examples() {
        assert_eq!(t(&TC26, 0xfdb97531), 0x2a196f34);
        assert_eq!(t(&TC26, 0x2a196f34), 0xebd9f03a);
        assert_eq!(t(&TC26, 0xebd9f03a), 0xb039bb3d);
        assert_eq!(t(&TC26, 0xb039bb3d), 0x68695433);
    }

    // RFC 8891 appendix A.2 / GOST A.2.2: transformation g
    #[test]
    fn g_examples() {
        assert_eq!(g(&TC26, 0x87654321, 0xfedcba98), 0xfdcbc20c);
        assert_eq!(g(&TC26, 0xfdcbc20c, 0x87654321), 0x7e791a4b);
        assert_eq!(g(&TC26, 0x7e791a4b, 0xfdcbc20c), 0xc76549ec);
        assert_eq!(g(&TC26, 0xc76549ec, 0x7e791a4b), 0x9791c849);
    }

    const KEY: &str = "ffeeddccbbaa99887766554433221100f0f1f2f3f4f5f6f7f8f9fafbfcfdfeff";

    // RFC 8891 appendix A.3 / GOST A.2.3: key schedule
    #[test]
    fn key_schedule_example() {
        let m = Gost89::new(&hx(KEY), &TC26).unwrap();
        let k: [u32; 8] = [
            0xffeeddcc, 0xbbaa9988, 0x77665544, 0x33221100, 0xf0f1f2f3, 0xf4f5f6f7, 0xf8f9fafb,
            0xfcfdfeff,
        ];
        let rk = m.round_keys();
        for i in 0..8 {
            assert_eq!(rk[i], k[i]);
            assert_eq!(rk[8 + i], k[i]);
            assert_eq!(rk[16 + i], k[i]);
            assert_eq!(rk[24 + i], k[7 - i]);
        }
    }

    // RFC 8891 appendix A.4 / GOST A.2.4: the 31 intermediate states of the encryption of
    // fedcba9876543210 and the final ciphertext.
    #[test]
    fn encryption_trace() {
        let trace: [(u32, u32); 31] = [
            (0x76543210, 0x28da3b14),
            (0x28da3b14, 0xb14337a5),
            (0xb14337a5, 0x633a7c68),
            (0x633a7c68, 0xea89c02c),
            (0xea89c02c, 0x11fe726d),
            (0x11fe726d, 0xad0310a4),
            (0xad0310a4, 0x37d97f25),
            (0x37d97f25, 0x46324615),
            (0x46324615, 0xce995f2a),
            (0xce995f2a, 0x93c1f449),
            (0x93c1f449, 0x4811c7ad),
            (0x4811c7ad, 0xc4b3edca),
            (0xc4b3edca, 0x44ca5ce1),
            (0x44ca5ce1, 0xfef51b68),
            (0xfef51b68, 0x2098cd86),
            (0x2098cd86, 0x4f15b0bb),
            (0x4f15b0bb, 0xe32805bc),
            (0xe32805bc, 0xe7116722),
            (0xe7116722, 0x89cadf21),
            (0x89cadf21, 0xbac8444d),
            (0xbac8444d, 0x11263a21),
            (0x11263a21, 0x625434c3),
            (0x625434c3, 0x8025c0a5),
            (0x8025c0a5, 0xb0d66514),
            (0xb0d66514, 0x47b1d5f4),
            (0x47b1d5f4, 0xc78e6d50),
            (0xc78e6d50, 0x80251e99),
            (0x80251e99, 0x2b96eca6),
            (0x2b96eca6, 0x05ef4401),
            (0x05ef4401, 0x239a4577),
            (0x239a4577, 0xc2d8ca3d),
        ];
        let m = Gost89::new(&hx(KEY), &TC26).unwrap();
        let rk = m.round_keys();
        let (mut a1, mut a0) = (0xfedcba98u32, 0x76543210u32);
        for i in 0..31 {
            let r = big_g(&TC26, rk[i], a1, a0);
            a1 = r.0;
            a0 = r.1;
            assert_eq!((a1, a0), trace[i], "after G[K_{}]", i + 1);
        }
        let (hi, lo) = big_g_star(&TC26, rk[31], a1, a0);
        assert_eq!((hi, lo), (0x4ee901e5, 0xc2d8ca3d));
    }

    // RFC 8891 appendix A.4 / A.5 (GOST R 34.12-2015 A.2.4, A.2.5)
    #[test]
    fn encrypt_decrypt_example() {
        let m = Gost89::new(&hx(KEY), &TC26).unwrap();
        let pt = hx("fedcba9876543210");
        let ct = hx("4ee901e5c2d8ca3d");
        let mut b = pt.clone();
        m.encrypt(&mut b);
        assert_eq!(b, ct);
        m.decrypt(&mut b);
        assert_eq!(b, pt);
    }

    // Structural check (not a published vector): for a non-bijective table the model is
    // still total and decrypt(encrypt(x)) == x (Feistel network).
    #[test]
    fn non_bijective_table_is_total() {
        let mut sb = [[0u8; 16]; 8];
        for i in 0..8 {
            for j in 0..16 {
                sb[i][j] = ((i * 7 + j * j) % 11) as u8;
            }
        }
        let mut bad = sb;
        bad[3][5] = 16;
        assert!(Gost89::new(&hx(KEY), &bad).is_none());
        let m = Gost89::new(&hx(KEY), &sb).unwrap();
        let mut b = hx("0123456789abcdef");
        m.encrypt(&mut b);
        assert_ne!(b, hx("0123456789abcdef"));
        m.decrypt(&mut b);
        assert_eq!(b, hx("0123456789abcdef"));
    }

    #[test]
    fn key_length() {
        assert!(Gost89::new(&[0u8; 31], &TC26).is_none());
        assert!(Gost89::new(&[0u8; 33], &TC26).is_none());
    }
}
