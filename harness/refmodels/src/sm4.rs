//! Reference model of SM4 (GB/T 32907-2016, identical to GM/T 0002-2012), written from the
//! standard's description: 32-bit big-endian words, S-box in the standard's 16x16 layout
//! (row = high nibble, column = low nibble), system parameter FK, fixed parameters CK computed
//! from the rule ck_{i,j} = (4i + j) * 7 mod 256, transformations T (rounds) and T' (key
//! expansion), 32 rounds, reverse transformation R at the end.

/// S-box as printed in the standard (row = high nibble of the input, column = low nibble).
const SBOX: [[u8; 16]; 16] = [
    [0xd6, 0x90, 0xe9, 0xfe, 0xcc, 0xe1, 0x3d, 0xb7, 0x16, 0xb6, 0x14, 0xc2, 0x28, 0xfb, 0x2c, 0x05],
    [0x2b, 0x67, 0x9a, 0x76, 0x2a, 0xbe, 0x04, 0xc3, 0xaa, 0x44, 0x13, 0x26, 0x49, 0x86, 0x06, 0x99],
    [0x9c, 0x42, 0x50, 0xf4, 0x91, 0xef, 0x98, 0x7a, 0x33, 0x54, 0x0b, 0x43, 0xed, 0xcf, 0xac, 0x62],
    [0xe4, 0xb3, 0x1c, 0xa9, 0xc9, 0x08, 0xe8, 0x95, 0x80, 0xdf, 0x94, 0xfa, 0x75, 0x8f, 0x3f, 0xa6],
    [0x47, 0x07, 0xa7, 0xfc, 0xf3, 0x73, 0x17, 0xba, 0x83, 0x59, 0x3c, 0x19, 0xe6, 0x85, 0x4f, 0xa8],
    [0x68, 0x6b, 0x81, 0xb2, 0x71, 0x64, 0xda, 0x8b, 0xf8, 0xeb, 0x0f, 0x4b, 0x70, 0x56, 0x9d, 0x35],
    [0x1e, 0x24, 0x0e, 0x5e, 0x63, 0x58, 0xd1, 0xa2, 0x25, 0x22, 0x7c, 0x3b, 0x01, 0x21, 0x78, 0x87],
    [0xd4, 0x00, 0x46, 0x57, 0x9f, 0xd3, 0x27, 0x52, 0x4c, 0x36, 0x02, 0xe7, 0xa0, 0xc4, 0xc8, 0x9e],
    [0xea, 0xbf, 0x8a, 0xd2, 0x40, 0xc7, 0x38, 0xb5, 0xa3, 0xf7, 0xf2, 0xce, 0xf9, 0x61, 0x15, 0xa1],
    [0xe0, 0xae, 0x5d, 0xa4, 0x9b, 0x34, 0x1a, 0x55, 0xad, 0x93, 0x32, 0x30, 0xf5, 0x8c, 0xb1, 0xe3],
    [0x1d, 0xf6, 0xe2, 0x2e, 0x82, 0x66, 0xca, 0x60, 0xc0, 0x29, 0x23, 0xab, 0x0d, 0x53, 0x4e, 0x6f],
    [0xd5, 0xdb, 0x37, 0x45, 0xde, 0xfd, 0x8e, 0x2f, 0x03, 0xff, 0x6a, 0x72, 0x6d, 0x6c, 0x5b, 0x51],
    [0x8d, 0x1b, 0xaf, 0x92, 0xbb, 0xdd, 0xbc, 0x7f, 0x11, 0xd9, 0x5c, 0x41, 0x1f, 0x10, 0x5a, 0xd8],
    [0x0a, 0xc1, 0x31, 0x88, 0xa5, 0xcd, 0x7b, 0xbd, 0x2d, 0x74, 0xd0, 0x12, 0xb8, 0xe5, 0xb4, 0xb0],
    [0x89, 0x69, 0x97, 0x4a, 0x0c, 0x96, 0x77, 0x7e, 0x65, 0xb9, 0xf1, 0x09, 0xc5, 0x6e, 0xc6, 0x84],
    [0x18, 0xf0, 0x7d, 0xec, 0x3a, 0xdc, 0x4d, 0x20, 0x79, 0xee, 0x5f, 0x3e, 0xd7, 0xcb, 0x39, 0x48],
];

/// System parameter FK.
const FK: [u32; 4] = [0xa3b1bac6, 0x56aa3350, 0x677d9197, 0xb27022dc];

fn sbox(b: u8) -> u8 {
    SBOX[(b >> 4) as usize][(b & 0x0f) as usize]
}

/// Fixed parameter CK_i = (ck_{i,0}, ck_{i,1}, ck_{i,2}, ck_{i,3}), ck_{i,j} = (4i+j)*7 mod 256.
fn ck(i: usize) -> u32 {
    let mut bytes = [0u8; 4];
    for j in 0..4 {
        bytes[j] = (((4 * i + j) * 7) % 256) as u8;
    }
    u32::from_be_bytes(bytes)
}

/// Non-linear transformation tau: four parallel S-boxes.
fn tau(a: u32) -> u32 {
    let a = a.to_be_bytes();
    u32::from_be_bytes([sbox(a[0]), sbox(a[1]), sbox(a[2]), sbox(a[3])])
}

/// Linear transformation L.
fn l(b: u32) -> u32 {
    b ^ b.rotate_left(2) ^ b.rotate_left(10) ^ b.rotate_left(18) ^ b.rotate_left(24)
}

/// Linear transformation L' (key expansion).
fn l_prime(b: u32) -> u32 {
    b ^ b.rotate_left(13) ^ b.rotate_left(23)
}

/// Composite transformation T = L(tau(.)).
fn t(x: u32) -> u32 {
    l(tau(x))
}

/// Composite transformation T' = L'(tau(.)).
fn t_prime(x: u32) -> u32 {
    l_prime(tau(x))
}

pub struct Sm4 {
    /// Round keys rk_0 .. rk_31.
    rk: [u32; 32],
}

impl Sm4 {
    pub const BLOCK: usize = 16;

    pub fn new(key: &[u8]) -> Option<Self> {
        if key.len() != 16 {
            return None;
        }
        // MK = (MK0, MK1, MK2, MK3); (K0..K3) = (MK0^FK0, ..., MK3^FK3)
        let mut k = [0u32; 36];
        for i in 0..4 {
            let mk = u32::from_be_bytes([key[4 * i], key[4 * i + 1], key[4 * i + 2], key[4 * i + 3]]);
            k[i] = mk ^ FK[i];
        }
        // rk_i = K_{i+4} = K_i ^ T'(K_{i+1} ^ K_{i+2} ^ K_{i+3} ^ CK_i)
        let mut rk = [0u32; 32];
        for i in 0..32 {
            k[i + 4] = k[i] ^ t_prime(k[i + 1] ^ k[i + 2] ^ k[i + 3] ^ ck(i));
            rk[i] = k[i + 4];
        }
        Some(Sm4 { rk })
    }

    fn crypt(&self, block: &mut [u8], decrypt: bool) {
        assert_eq!(block.len(), Self::BLOCK);
        let mut x = [0u32; 36];
        for i in 0..4 {
            x[i] = u32::from_be_bytes([block[4 * i], block[4 * i + 1], block[4 * i + 2], block[4 * i + 3]]);
        }
        // X_{i+4} = F(X_i, X_{i+1}, X_{i+2}, X_{i+3}, rk_i) = X_i ^ T(X_{i+1}^X_{i+2}^X_{i+3}^rk_i)
        for i in 0..32 {
            // decryption uses the round keys in the order rk_31 .. rk_0
            let rk = if decrypt { self.rk[31 - i] } else { self.rk[i] };
            x[i + 4] = x[i] ^ t(x[i + 1] ^ x[i + 2] ^ x[i + 3] ^ rk);
        }
        // (Y0, Y1, Y2, Y3) = R(X32, X33, X34, X35) = (X35, X34, X33, X32)
        let y = [x[35], x[34], x[33], x[32]];
        for i in 0..4 {
            block[4 * i..4 * i + 4].copy_from_slice(&y[i].to_be_bytes());
        }
    }

    pub fn encrypt(&self, block: &mut [u8]) {
        self.crypt(block, false)
    }

    pub fn decrypt(&self, block: &mut [u8]) {
        self.crypt(block, true)
    }
}

#[cfg(test)]
mod tests {
    use super::*;

    fn hex(s: &str) -> Vec<u8> {
        (0..s.len() / 2).map(|i| u8::from_str_radix(&s[2 * i..2 * i + 2], 16).unwrap()).collect()
    }

    #[test]
    fn sbox_is_a_permutation() {
        let mut seen = [false; 256];
        for b in 0..=255u8 {
            seen[sbox(b) as usize] = true;
        }
        assert!(seen.iter().all(|&s| s));
    }

    /// The standard prints the 32 CK words; first and last rows of that listing.
    #[test]
    fn ck_listing() {
        assert_eq!(ck(0), 0x00070e15);
        assert_eq!(ck(1), 0x1c232a31);
        assert_eq!(ck(2), 0x383f464d);
        assert_eq!(ck(3), 0x545b6269);
        assert_eq!(ck(28), 0x10171e25);
        assert_eq!(ck(29), 0x2c333a41);
        assert_eq!(ck(30), 0x484f565d);
        assert_eq!(ck(31), 0x646b7279);
    }

    /// GB/T 32907-2016 Appendix A, example 1 (also GM/T 0002-2012 and
    /// draft-ribose-cfrg-sm4 Appendix A.1), including the printed rk_0, rk_31 and X_4.
    #[test]
    fn standard_example_1() {
        let key = hex("0123456789abcdeffedcba9876543210");
        let c = Sm4::new(&key).unwrap();
        assert_eq!(c.rk[0], 0xf12186f9);
        assert_eq!(c.rk[1], 0x41662b61);
        assert_eq!(c.rk[31], 0x9124a012);
        let mut b = key.clone();
        c.encrypt(&mut b);
        assert_eq!(b, hex("681edf34d206965e86b3e94f536e4246"));
        c.decrypt(&mut b);
        assert_eq!(b, key);
    }

    /// GB/T 32907-2016 Appendix A, example 2: the same key, plaintext encrypted 1,000,000
    /// times. In unoptimised builds only the round trip over fewer iterations is checked
    /// (the million was verified in release at authoring time and runs whenever
    /// optimisations are on).
    #[test]
    fn standard_example_2() {
        let key = hex("0123456789abcdeffedcba9876543210");
        let c = Sm4::new(&key).unwrap();
        let n = if cfg!(debug_assertions) { 20_000 } else { 1_000_000 };
        let mut b = key.clone();
        for _ in 0..n {
            c.encrypt(&mut b);
        }
        if n == 1_000_000 {
            assert_eq!(b, hex("595298c7c6fd271f0402f804c33d3f66"));
        }
        for _ in 0..n {
            c.decrypt(&mut b);
        }
        assert_eq!(b, key);
    }

    #[test]
    fn key_lengths() {
        for n in 0..40 {
            assert_eq!(Sm4::new(&vec![0u8; n]).is_some(), n == 16);
        }
    }
}
