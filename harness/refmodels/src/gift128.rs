//! GIFT-128 reference model, written bit by bit from Banik, Pandey, Peyrin, Sasaki, Sim, Todo,
//! "GIFT: A Small Present" (CHES 2017), section 2.
//!
//! State: 128 bits b127 ... b0 (b0 least significant), nibble w_i = b_{4i+3} .. b_{4i}.
//! Key state: eight 16-bit words k7 || k6 || ... || k0.
//! 40 rounds, each: SubCells, PermBits, AddRoundKey (round key, then round constant).
//!
//! Byte convention (DESIGN.md Appendix A): big-endian -- byte 0 of the block holds b127..b120,
//! byte 0 of the key holds the high byte of k7 -- as in the GIFT reference test vectors.

const ROUNDS: usize = 40;

/// GIFT S-box GS (paper, table 1).
const GS: [u8; 16] = [
    0x1, 0xa, 0x4, 0xc, 0x6, 0xf, 0x3, 0x9, 0x2, 0xd, 0xb, 0x7, 0x5, 0x0, 0x8, 0xe,
];

/// Bit permutation of GIFT-128 (paper, section 2.1):
/// P128(i) = 4 floor(i/16) + 32 ((3 floor((i mod 16)/4) + (i mod 4)) mod 4) + (i mod 4).
/// Bit b_i moves to position P128(i).
fn p128(i: usize) -> usize {
    4 * (i / 16) + 32 * ((3 * ((i % 16) / 4) + (i % 4)) % 4) + (i % 4)
}

pub struct Gift128 {
    /// per round: the 32-bit U and V (bit i of the u32 = u_i / v_i) and the 6-bit constant
    rk: Vec<(u32, u32, u8)>,
}

type Bits = [u8; 128];

fn load(block: &[u8]) -> Bits {
    let mut b = [0u8; 128];
    for i in 0..128 {
        // bit b_i lives in byte 15 - i/8 (big-endian), at bit position i mod 8
        b[i] = (block[15 - i / 8] >> (i % 8)) & 1;
    }
    b
}
fn store(b: &Bits, block: &mut [u8]) {
    for x in block.iter_mut() {
        *x = 0;
    }
    for i in 0..128 {
        block[15 - i / 8] |= b[i] << (i % 8);
    }
}

fn sub_cells(b: &mut Bits, sbox: &[u8; 16]) {
    for n in 0..32 {
        let x = b[4 * n] | (b[4 * n + 1] << 1) | (b[4 * n + 2] << 2) | (b[4 * n + 3] << 3);
        let y = sbox[x as usize];
        for k in 0..4 {
            b[4 * n + k] = (y >> k) & 1;
        }
    }
}

fn perm_bits(b: &Bits) -> Bits {
    let mut out = [0u8; 128];
    for i in 0..128 {
        out[p128(i)] = b[i];
    }
    out
}
fn inv_perm_bits(b: &Bits) -> Bits {
    let mut out = [0u8; 128];
    for i in 0..128 {
        out[i] = b[p128(i)];
    }
    out
}

fn add_round_key(b: &mut Bits, u: u32, v: u32, c: u8) {
    for i in 0..32 {
        b[4 * i + 2] ^= ((u >> i) & 1) as u8;
        b[4 * i + 1] ^= ((v >> i) & 1) as u8;
    }
    b[127] ^= 1;
    b[23] ^= (c >> 5) & 1;
    b[19] ^= (c >> 4) & 1;
    b[15] ^= (c >> 3) & 1;
    b[11] ^= (c >> 2) & 1;
    b[7] ^= (c >> 1) & 1;
    b[3] ^= c & 1;
}

impl Gift128 {
    pub const BLOCK: usize = 16;

    pub fn new(key: &[u8]) -> Option<Self> {
        if key.len() != 16 {
            return None;
        }
        // k[i] = k_i ; K = k7 || ... || k0 with k7 the most significant 16 bits
        let mut k = [0u16; 8];
        for i in 0..8 {
            k[7 - i] = ((key[2 * i] as u16) << 8) | key[2 * i + 1] as u16;
        }
        let mut c: u8 = 0; // (c5..c0), all zero initially, updated before use
        let mut rk = Vec::with_capacity(ROUNDS);
        for _ in 0..ROUNDS {
            // round key extracted from the current key state: U = k5||k4, V = k1||k0
            let u = ((k[5] as u32) << 16) | k[4] as u32;
            let v = ((k[1] as u32) << 16) | k[0] as u32;
            // (c5,c4,c3,c2,c1,c0) <- (c4,c3,c2,c1,c0, c5 xor c4 xor 1)
            c = ((c << 1) & 0x3f) | (((c >> 5) ^ (c >> 4) ^ 1) & 1);
            rk.push((u, v, c));
            // k7||k6||...||k0 <- (k1 >>> 2) || (k0 >>> 12) || k7 || ... || k2
            let nk = [
                k[2],
                k[3],
                k[4],
                k[5],
                k[6],
                k[7],
                k[0].rotate_right(12),
                k[1].rotate_right(2),
            ];
            k = nk;
        }
        Some(Gift128 { rk })
    }

    pub fn encrypt(&self, block: &mut [u8]) {
        assert_eq!(block.len(), Self::BLOCK);
        let mut b = load(block);
        for &(u, v, c) in self.rk.iter() {
            sub_cells(&mut b, &GS);
            b = perm_bits(&b);
            add_round_key(&mut b, u, v, c);
        }
        store(&b, block);
    }

    pub fn decrypt(&self, block: &mut [u8]) {
        assert_eq!(block.len(), Self::BLOCK);
        let mut inv = [0u8; 16];
        for x in 0..16 {
            inv[GS[x] as usize] = x as u8;
        }
        let mut b = load(block);
        for &(u, v, c) in self.rk.iter().rev() {
            add_round_key(&mut b, u, v, c);
            b = inv_perm_bits(&b);
            sub_cells(&mut b, &inv);
        }
        store(&b, block);
    }
}

#[cfg(test)]
mod tests {
    use super::*;

    fn hex(s: &str) -> Vec<u8> {
        (0..s.len() / 2)
            .map(|i| u8::from_str_radix(&s[2 * i..2 * i + 2], 16).unwrap())
            .collect()
    }

    /// GIFT-128 test vectors published by the designers (giftcipher/gift reference
    /// implementation test vectors; the same three are in /repo/gift/tests/mod.rs).
    #[test]
    fn designers_vectors() {
        let v = [
            (
                "00000000000000000000000000000000",
                "00000000000000000000000000000000",
                "cd0bd738388ad3f668b15a36ceb6ff92",
            ),
            (
                "fedcba9876543210fedcba9876543210",
                "fedcba9876543210fedcba9876543210",
                "8422241a6dbf5a9346af468409ee0152",
            ),
            (
                "d0f5c59a7700d3e799028fa9f90ad837",
                "e39c141fa57dba43f08a85b6a91f86c1",
                "13ede67cbdcc3dbf400a62d6977265ea",
            ),
        ];
        for (key, pt, ct) in v.iter() {
            let c = Gift128::new(&hex(key)).unwrap();
            let mut b = hex(pt);
            c.encrypt(&mut b);
            assert_eq!(b, hex(ct));
            c.decrypt(&mut b);
            assert_eq!(b, hex(pt));
        }
    }

    /// The first round constants printed in the paper (section 2.1):
    /// 01,03,07,0F,1F,3E,3D,3B,37,2F,1E,3C,39,33,27,0E,...
    #[test]
    fn round_constants() {
        let c = Gift128::new(&[0; 16]).unwrap();
        let want = [
            0x01, 0x03, 0x07, 0x0F, 0x1F, 0x3E, 0x3D, 0x3B, 0x37, 0x2F, 0x1E, 0x3C, 0x39, 0x33,
            0x27, 0x0E,
        ];
        for (i, w) in want.iter().enumerate() {
            assert_eq!(c.rk[i].2, *w);
        }
    }

    /// P128 is a permutation; spot values from the paper's table 3 (first row: 0->0, 1->33,
    /// 2->66, 3->99, 4->96, 5->1, 6->34, 7->67).
    #[test]
    fn permutation() {
        let mut seen = [false; 128];
        for i in 0..128 {
            assert!(!seen[p128(i)]);
            seen[p128(i)] = true;
        }
        let first = [0, 33, 66, 99, 96, 1, 34, 67];
        for (i, p) in first.iter().enumerate() {
            assert_eq!(p128(i), *p);
        }
        assert!(Gift128::new(&[0; 15]).is_none());
    }
}
