//! Reference model of Serpent (Anderson, Biham, Knudsen: "Serpent: A Proposal for the Advanced
//! Encryption Standard", AES submission), written from the specification.
//!
//! Form used: the specification's *bitslice-mode* description (section 3, "An efficient
//! implementation"), in which the initial/final permutations disappear and
//!
//!   B_0 = P,  B_{i+1} = L(S_{i mod 8}(B_i ^ K_i))  (i = 0..30),
//!   B_32 = S_7(B_31 ^ K_31) ^ K_32,  C = B_32,
//!
//! but with the S-boxes applied by *table lookup per bit column* instead of by boolean circuits:
//! for every bit position j in 0..32 the nibble (bit j of X0 = LSB, X1, X2, bit j of X3 = MSB)
//! is replaced by S[nibble]. The eight S-boxes are the 16-entry tables printed in the
//! specification (appendix A.5); the inverse tables are computed.
//!
//! Conventions (NESSIE / DESIGN.md Appendix A): the 16-byte block is four little-endian u32
//! X0..X3 (X0 = bytes 0..4); the key is a little-endian byte stream of 16..=32 bytes; a key
//! shorter than 256 bits is padded with a single 1 bit (i.e. the byte 0x01 appended directly
//! after the key) followed by zero bits up to 256 bits.

/// S-boxes S0..S7 as printed in the Serpent specification (one row per box).
const SBOX: [[u8; 16]; 8] = [
    [3, 8, 15, 1, 10, 6, 5, 11, 14, 13, 4, 2, 7, 0, 9, 12],
    [15, 12, 2, 7, 9, 0, 5, 10, 1, 11, 14, 8, 6, 13, 3, 4],
    [8, 6, 7, 9, 3, 12, 10, 15, 13, 1, 14, 4, 0, 11, 5, 2],
    [0, 15, 11, 8, 12, 9, 6, 3, 13, 1, 2, 4, 10, 7, 5, 14],
    [1, 15, 8, 3, 12, 0, 11, 6, 2, 5, 4, 10, 9, 14, 7, 13],
    [15, 5, 2, 11, 4, 10, 9, 12, 0, 3, 14, 8, 13, 6, 7, 1],
    [7, 2, 12, 5, 8, 4, 6, 11, 14, 9, 1, 15, 13, 3, 10, 0],
    [1, 13, 15, 0, 14, 8, 2, 11, 7, 4, 12, 10, 9, 3, 5, 6],
];

/// The golden-ratio constant of the prekey recurrence.
const PHI: u32 = 0x9e37_79b9;

fn invert(table: &[u8; 16]) -> [u8; 16] {
    let mut inv = [0u8; 16];
    for (x, &y) in table.iter().enumerate() {
        inv[y as usize] = x as u8;
    }
    inv
}

/// Apply a 4-bit table to the 32 bit columns of four words (bitslice-mode S-box layer).
fn sbox_layer(table: &[u8; 16], x: [u32; 4]) -> [u32; 4] {
    let mut out = [0u32; 4];
    for j in 0..32 {
        let nib = ((x[0] >> j) & 1)
            | (((x[1] >> j) & 1) << 1)
            | (((x[2] >> j) & 1) << 2)
            | (((x[3] >> j) & 1) << 3);
        let y = table[nib as usize] as u32;
        for (w, o) in out.iter_mut().enumerate() {
            *o |= ((y >> w) & 1) << j;
        }
    }
    out
}

/// The linear transformation L of the specification (bitslice form).
fn lt(x: [u32; 4]) -> [u32; 4] {
    let [mut x0, mut x1, mut x2, mut x3] = x;
    x0 = x0.rotate_left(13);
    x2 = x2.rotate_left(3);
    x1 = x1 ^ x0 ^ x2;
    x3 = x3 ^ x2 ^ (x0 << 3);
    x1 = x1.rotate_left(1);
    x3 = x3.rotate_left(7);
    x0 = x0 ^ x1 ^ x3;
    x2 = x2 ^ x3 ^ (x1 << 7);
    x0 = x0.rotate_left(5);
    x2 = x2.rotate_left(22);
    [x0, x1, x2, x3]
}

/// Inverse of `lt`: the same steps undone in reverse order.
fn lt_inv(x: [u32; 4]) -> [u32; 4] {
    let [mut x0, mut x1, mut x2, mut x3] = x;
    x2 = x2.rotate_right(22);
    x0 = x0.rotate_right(5);
    x2 = x2 ^ x3 ^ (x1 << 7);
    x0 = x0 ^ x1 ^ x3;
    x3 = x3.rotate_right(7);
    x1 = x1.rotate_right(1);
    x3 = x3 ^ x2 ^ (x0 << 3);
    x1 = x1 ^ x0 ^ x2;
    x2 = x2.rotate_right(3);
    x0 = x0.rotate_right(13);
    [x0, x1, x2, x3]
}

fn xor4(a: [u32; 4], b: [u32; 4]) -> [u32; 4] {
    [a[0] ^ b[0], a[1] ^ b[1], a[2] ^ b[2], a[3] ^ b[3]]
}

fn load(block: &[u8]) -> [u32; 4] {
    let mut x = [0u32; 4];
    for i in 0..4 {
        x[i] = u32::from_le_bytes([
            block[4 * i],
            block[4 * i + 1],
            block[4 * i + 2],
            block[4 * i + 3],
        ]);
    }
    x
}

fn store(x: [u32; 4], block: &mut [u8]) {
    for i in 0..4 {
        block[4 * i..4 * i + 4].copy_from_slice(&x[i].to_le_bytes());
    }
}

pub struct Serpent {
    /// The 33 128-bit round keys K_0..K_32, each as the four words k_{4i}..k_{4i+3}.
    k: [[u32; 4]; 33],
}

impl Serpent {
    pub const BLOCK: usize = 16;

    /// Keys of 16..=32 bytes (whole bytes only); anything else is `None`.
    pub fn new(key: &[u8]) -> Option<Self> {
        if key.len() < 16 || key.len() > 32 {
            return None;
        }
        // Pad to 256 bits: one 1 bit, then zeros.
        let mut padded = [0u8; 32];
        padded[..key.len()].copy_from_slice(key);
        if key.len() < 32 {
            padded[key.len()] = 0x01;
        }
        // Prekeys: w[0..8] hold w_{-8}..w_{-1}, w[i + 8] holds w_i for i = 0..131.
        let mut w = [0u32; 140];
        for i in 0..8 {
            w[i] = u32::from_le_bytes([
                padded[4 * i],
                padded[4 * i + 1],
                padded[4 * i + 2],
                padded[4 * i + 3],
            ]);
        }
        for i in 0..132u32 {
            let n = i as usize + 8;
            w[n] = (w[n - 8] ^ w[n - 5] ^ w[n - 3] ^ w[n - 1] ^ PHI ^ i).rotate_left(11);
        }
        // Round keys: {k_0..k_3} = S3(w_0..w_3), {k_4..k_7} = S2(...), S1, S0, S7, ...,
        // {k_128..k_131} = S3(w_128..w_131).
        let mut k = [[0u32; 4]; 33];
        for i in 0..33 {
            let which = (3 + 8 * 5 - i) % 8; // (3 - i) mod 8
            let words = [w[8 + 4 * i], w[9 + 4 * i], w[10 + 4 * i], w[11 + 4 * i]];
            k[i] = sbox_layer(&SBOX[which], words);
        }
        Some(Serpent { k })
    }

    pub fn encrypt(&self, block: &mut [u8]) {
        assert_eq!(block.len(), Self::BLOCK);
        let mut b = load(block);
        for i in 0..32 {
            b = sbox_layer(&SBOX[i % 8], xor4(b, self.k[i]));
            if i < 31 {
                b = lt(b);
            } else {
                b = xor4(b, self.k[32]);
            }
        }
        store(b, block);
    }

    pub fn decrypt(&self, block: &mut [u8]) {
        assert_eq!(block.len(), Self::BLOCK);
        let mut b = load(block);
        for i in (0..32).rev() {
            if i < 31 {
                b = lt_inv(b);
            } else {
                b = xor4(b, self.k[32]);
            }
            b = xor4(sbox_layer(&invert(&SBOX[i % 8]), b), self.k[i]);
        }
        store(b, block);
    }
}

#[cfg(test)]
mod tests {
    use super::*;

    fn unhex(s: &str) -> Vec<u8> {
        (0..s.len() / 2)
            .map(|i| u8::from_str_radix(&s[2 * i..2 * i + 2], 16).unwrap())
            .collect()
    }

    /// NESSIE test vectors for Serpent (Serpent-{128,192,256}-128.verified.test-vectors,
    /// http://www.cs.technion.ac.il/~biham/Reports/Serpent/), decoded from
    /// /repo/serpent/tests/data/serpent{128,192,256}.blb. (key, plaintext, ciphertext).
    /// Sets 1 (single key bit), 2 (single plaintext bit), 3 (repeated byte) and 4.
    const NESSIE: &[(&str, &str, &str)] = &[
        // 128-bit keys
        ("80000000000000000000000000000000", "00000000000000000000000000000000", "264E5481EFF42A4606ABDA06C0BFDA3D"),
        ("40000000000000000000000000000000", "00000000000000000000000000000000", "4A231B3BC727993407AC6EC8350E8524"),
        ("00000000000000000000000000000001", "00000000000000000000000000000000", "F668C7091F81B2827DA77DD419B708E1"),
        ("00000000000000000000000000000000", "80000000000000000000000000000000", "A3B35DE7C358DDD82644678C64B8BCBB"),
        ("00000000000000000000000000000000", "00000000000000000000000000000001", "9BEDCEA16BDE863526A937208CBF0ABC"),
        ("2C2C2C2C2C2C2C2C2C2C2C2C2C2C2C2C", "2C2C2C2C2C2C2C2C2C2C2C2C2C2C2C2C", "5699BDB2FFAFB2D259362EFD804797E8"),
        ("FFFFFFFFFFFFFFFFFFFFFFFFFFFFFFFF", "FFFFFFFFFFFFFFFFFFFFFFFFFFFFFFFF", "2DEE675B6B7401367DA2A80FB44B8065"),
        ("000102030405060708090A0B0C0D0E0F", "00112233445566778899AABBCCDDEEFF", "563E2CF8740A27C164804560391E9B27"),
        ("2BD6459F82C5B300952C49104881FF48", "EA024714AD5C4D84EA024714AD5C4D84", "92D7F8EF2C36C53409F275902F06539F"),
        // 192-bit keys
        ("800000000000000000000000000000000000000000000000", "00000000000000000000000000000000", "9E274EAD9B737BB21EFCFCA548602689"),
        ("000000000000000000000000000000010000000000000000", "00000000000000000000000000000000", "DEAB7388A6F1C61D41E25A0D88F062C4"),
        ("000000000000000000000000000000008000000000000000", "00000000000000000000000000000000", "9F18DF64A519FEC0581C0C27F805F484"),
        ("000000000000000000000000000000000000000000000000", "00000000000000000200000000000000", "B9B7F96A83494D61C0D476E15CF9FC40"),
        ("000000000000000000000000000000000000000000000000", "00000000000000000000000000000001", "497EA15A5AAB3CB115C3E0091C2E4047"),
        ("C7C7C7C7C7C7C7C7C7C7C7C7C7C7C7C7C7C7C7C7C7C7C7C7", "C7C7C7C7C7C7C7C7C7C7C7C7C7C7C7C7", "B4B996316FAD0DEE6D09E16E8D121F3E"),
        ("000102030405060708090A0B0C0D0E0F1011121314151617", "00112233445566778899AABBCCDDEEFF", "6AB816C82DE53B93005008AFA2246A02"),
        ("2BD6459F82C5B300952C49104881FF482BD6459F82C5B300", "EA024714AD5C4D84EA024714AD5C4D84", "827B18C2678A239DFC5512842000E204"),
        // 256-bit keys
        ("8000000000000000000000000000000000000000000000000000000000000000", "00000000000000000000000000000000", "A223AA1288463C0E2BE38EBD825616C0"),
        ("0000000000000000000000000000000100000000000000000000000000000000", "00000000000000000000000000000000", "47BFD757C13ADA4001DF9B0989E7CB80"),
        ("0000000000000000000000000000000000000000000000000000000000000001", "00000000000000000000000000000000", "9858FD31C9C6B54AC0C99CC52324ED34"),
        ("0000000000000000000000000000000000000000000000000000000000000000", "02000000000000000000000000000000", "DF5E38BE0362C35E8AF472C6327987DA"),
        ("0000000000000000000000000000000000000000000000000000000000000000", "00000000000000000000000000000001", "AD86DE83231C3203A86AE33B721EAA9F"),
        ("D8D8D8D8D8D8D8D8D8D8D8D8D8D8D8D8D8D8D8D8D8D8D8D8D8D8D8D8D8D8D8D8", "D8D8D8D8D8D8D8D8D8D8D8D8D8D8D8D8", "331500BC3E6B20EB1E8A1346E6DBFB51"),
        ("000102030405060708090A0B0C0D0E0F101112131415161718191A1B1C1D1E1F", "00112233445566778899AABBCCDDEEFF", "2868B7A2D28ECD5E4FDEFAC3C4330074"),
        ("2BD6459F82C5B300952C49104881FF482BD6459F82C5B300952C49104881FF48", "EA024714AD5C4D84EA024714AD5C4D84", "3E507730776B93FDEA661235E1DD99F0"),
    ];

    #[test]
    fn nessie_vectors() {
        for (i, (k, p, c)) in NESSIE.iter().enumerate() {
            let (k, p, c) = (unhex(k), unhex(p), unhex(c));
            let m = Serpent::new(&k).unwrap();
            let mut b = p.clone();
            m.encrypt(&mut b);
            assert_eq!(b, c, "vector {i} encrypt");
            m.decrypt(&mut b);
            assert_eq!(b, p, "vector {i} decrypt");
        }
    }

    /// Specification, section 4 (key schedule): a short key is mapped to a 256-bit key by
    /// appending one 1 bit and then zeros, so every short key must behave exactly like its
    /// explicitly padded 256-bit form.
    #[test]
    fn short_key_equals_padded_key() {
        let base: Vec<u8> = (0u8..32).map(|i| i.wrapping_mul(37).wrapping_add(11)).collect();
        for len in 16..32 {
            let mut padded = [0u8; 32];
            padded[..len].copy_from_slice(&base[..len]);
            padded[len] = 1;
            let a = Serpent::new(&base[..len]).unwrap();
            let b = Serpent::new(&padded).unwrap();
            let mut x = [0x5Au8; 16];
            let mut y = x;
            a.encrypt(&mut x);
            b.encrypt(&mut y);
            assert_eq!(x, y, "len {len}");
        }
    }

    #[test]
    fn key_lengths() {
        for len in 0..=40 {
            assert_eq!(Serpent::new(&vec![0u8; len]).is_some(), (16..=32).contains(&len));
        }
    }

    #[test]
    fn sboxes_are_permutations_and_lt_inverts() {
        for s in SBOX.iter() {
            let inv = invert(s);
            for x in 0..16u8 {
                assert_eq!(inv[s[x as usize] as usize], x);
            }
        }
        let x = [0x0123_4567, 0x89ab_cdef, 0xdead_beef, 0x0bad_f00d];
        assert_eq!(lt_inv(lt(x)), x);
    }
}
