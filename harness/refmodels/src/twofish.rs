//! Reference model of Twofish (Schneier, Kelsey, Whiting, Wagner, Hall, Ferguson: "Twofish: A
//! 128-Bit Block Cipher", 15 June 1998), written from the paper (sections 4.1-4.3).
//!
//! Everything is computed the long way round on every call: the fixed permutations q0/q1 are
//! evaluated from their four 4-bit tables t0..t3, the MDS and RS matrices are applied by
//! GF(2^8) polynomial multiplication, and g(X) = h(X, S) calls the generic function h (no
//! key-dependent S-box tables are precomputed).
//!
//! Conventions (paper section 4 / DESIGN.md Appendix A): plaintext, ciphertext and key bytes
//! are grouped into little-endian 32-bit words.

/// The 4-bit tables t0..t3 of q0, as printed in section 4.3.5.
const Q0_T: [[u8; 16]; 4] = [
    [0x8, 0x1, 0x7, 0xD, 0x6, 0xF, 0x3, 0x2, 0x0, 0xB, 0x5, 0x9, 0xE, 0xC, 0xA, 0x4],
    [0xE, 0xC, 0xB, 0x8, 0x1, 0x2, 0x3, 0x5, 0xF, 0x4, 0xA, 0x6, 0x7, 0x0, 0x9, 0xD],
    [0xB, 0xA, 0x5, 0xE, 0x6, 0xD, 0x9, 0x0, 0xC, 0x8, 0xF, 0x3, 0x2, 0x4, 0x7, 0x1],
    [0xD, 0x7, 0xF, 0x4, 0x1, 0x2, 0x6, 0xE, 0x9, 0xB, 0x3, 0x0, 0x8, 0x5, 0xC, 0xA],
];

/// The 4-bit tables t0..t3 of q1.
const Q1_T: [[u8; 16]; 4] = [
    [0x2, 0x8, 0xB, 0xD, 0xF, 0x7, 0x6, 0xE, 0x3, 0x1, 0x9, 0x4, 0x0, 0xA, 0xC, 0x5],
    [0x1, 0xE, 0x2, 0xB, 0x4, 0xC, 0x3, 0x7, 0x6, 0xD, 0xA, 0x5, 0xF, 0x9, 0x0, 0x8],
    [0x4, 0xC, 0x7, 0x5, 0x1, 0x6, 0x9, 0xA, 0x0, 0xE, 0xD, 0x8, 0x2, 0xB, 0x3, 0xF],
    [0xB, 0x9, 0x5, 0x1, 0xC, 0x3, 0xD, 0xE, 0x6, 0x4, 0x7, 0xF, 0x2, 0x0, 0x8, 0xA],
];

/// The MDS matrix (section 4.2).
const MDS: [[u8; 4]; 4] = [
    [0x01, 0xEF, 0x5B, 0x5B],
    [0x5B, 0xEF, 0xEF, 0x01],
    [0xEF, 0x5B, 0x01, 0xEF],
    [0xEF, 0x01, 0xEF, 0x5B],
];

/// The RS matrix (section 4.3).
const RS: [[u8; 8]; 4] = [
    [0x01, 0xA4, 0x55, 0x87, 0x5A, 0x58, 0xDB, 0x9E],
    [0xA4, 0x56, 0x82, 0xF3, 0x1E, 0xC6, 0x68, 0xE5],
    [0x02, 0xA1, 0xFC, 0xC1, 0x47, 0xAE, 0x3D, 0x19],
    [0xA4, 0x55, 0x87, 0x5A, 0x58, 0xDB, 0x9E, 0x03],
];

/// v(x) = x^8 + x^6 + x^5 + x^3 + 1, the field polynomial used with the MDS matrix.
const MDS_POLY: u16 = 0x169;
/// w(x) = x^8 + x^6 + x^3 + x^2 + 1, the field polynomial used with the RS matrix.
const RS_POLY: u16 = 0x14D;

const RHO: u32 = 0x0101_0101;

/// Multiplication in GF(2)[x] / poly (poly of degree 8), schoolbook shift-and-add.
fn gf_mul(a: u8, b: u8, poly: u16) -> u8 {
    let mut acc: u16 = 0;
    let mut a = a as u16;
    let mut b = b;
    while b != 0 {
        if b & 1 != 0 {
            acc ^= a;
        }
        a <<= 1;
        if a & 0x100 != 0 {
            a ^= poly;
        }
        b >>= 1;
    }
    acc as u8
}

/// 4-bit rotate right by one.
fn ror4(x: u8) -> u8 {
    ((x >> 1) | (x << 3)) & 0xF
}

/// The fixed 8-bit permutation built from tables t0..t3 (section 4.3.5).
fn q(t: &[[u8; 16]; 4], x: u8) -> u8 {
    let a0 = x / 16;
    let b0 = x % 16;
    let a1 = a0 ^ b0;
    let b1 = a0 ^ ror4(b0) ^ ((8 * a0) % 16);
    let a2 = t[0][a1 as usize];
    let b2 = t[1][b1 as usize];
    let a3 = a2 ^ b2;
    let b3 = a2 ^ ror4(b2) ^ ((8 * a2) % 16);
    let a4 = t[2][a3 as usize];
    let b4 = t[3][b3 as usize];
    16 * b4 + a4
}

fn q0(x: u8) -> u8 {
    q(&Q0_T, x)
}

fn q1(x: u8) -> u8 {
    q(&Q1_T, x)
}

/// The function h (section 4.3.2, figure 2). `l` is the list L = (L_0, ..., L_{k-1}).
fn h(x: u32, l: &[u32]) -> u32 {
    let k = l.len();
    let lb: Vec<[u8; 4]> = l.iter().map(|w| w.to_le_bytes()).collect();
    let mut y = x.to_le_bytes();
    if k == 4 {
        y[0] = q1(y[0]) ^ lb[3][0];
        y[1] = q0(y[1]) ^ lb[3][1];
        y[2] = q0(y[2]) ^ lb[3][2];
        y[3] = q1(y[3]) ^ lb[3][3];
    }
    if k >= 3 {
        y[0] = q1(y[0]) ^ lb[2][0];
        y[1] = q1(y[1]) ^ lb[2][1];
        y[2] = q0(y[2]) ^ lb[2][2];
        y[3] = q0(y[3]) ^ lb[2][3];
    }
    y[0] = q1(q0(q0(y[0]) ^ lb[1][0]) ^ lb[0][0]);
    y[1] = q0(q0(q1(y[1]) ^ lb[1][1]) ^ lb[0][1]);
    y[2] = q1(q1(q0(y[2]) ^ lb[1][2]) ^ lb[0][2]);
    y[3] = q0(q1(q1(y[3]) ^ lb[1][3]) ^ lb[0][3]);
    let mut z = [0u8; 4];
    for i in 0..4 {
        for j in 0..4 {
            z[i] ^= gf_mul(MDS[i][j], y[j], MDS_POLY);
        }
    }
    u32::from_le_bytes(z)
}

pub struct Twofish {
    /// The 40 expanded key words K_0..K_39.
    k: [u32; 40],
    /// The S vector in the order used by g: (S_{k-1}, ..., S_0).
    s: Vec<u32>,
}

impl Twofish {
    pub const BLOCK: usize = 16;

    /// Keys of 16, 24 or 32 bytes; anything else is `None`.
    pub fn new(key: &[u8]) -> Option<Self> {
        let kk = match key.len() {
            16 => 2,
            24 => 3,
            32 => 4,
            _ => return None,
        };
        // M_i: the 2k little-endian key words; M_e = even-indexed, M_o = odd-indexed.
        let m: Vec<u32> = key
            .chunks(4)
            .map(|c| u32::from_le_bytes([c[0], c[1], c[2], c[3]]))
            .collect();
        let me: Vec<u32> = (0..kk).map(|i| m[2 * i]).collect();
        let mo: Vec<u32> = (0..kk).map(|i| m[2 * i + 1]).collect();
        // S_i = RS * (m_{8i} .. m_{8i+7}); S = (S_{k-1}, ..., S_0).
        let mut s = vec![0u32; kk];
        for i in 0..kk {
            let mut sb = [0u8; 4];
            for r in 0..4 {
                for c in 0..8 {
                    sb[r] ^= gf_mul(RS[r][c], key[8 * i + c], RS_POLY);
                }
            }
            s[kk - 1 - i] = u32::from_le_bytes(sb);
        }
        // Expanded key words.
        let mut k = [0u32; 40];
        for i in 0..20u32 {
            let a = h((2 * i).wrapping_mul(RHO), &me);
            let b = h((2 * i + 1).wrapping_mul(RHO), &mo).rotate_left(8);
            k[2 * i as usize] = a.wrapping_add(b);
            k[2 * i as usize + 1] = a.wrapping_add(b.wrapping_mul(2)).rotate_left(9);
        }
        Some(Twofish { k, s })
    }

    fn g(&self, x: u32) -> u32 {
        h(x, &self.s)
    }

    /// The function F of round r (section 4.3.1).
    fn f(&self, r0: u32, r1: u32, r: usize) -> (u32, u32) {
        let t0 = self.g(r0);
        let t1 = self.g(r1.rotate_left(8));
        let f0 = t0.wrapping_add(t1).wrapping_add(self.k[2 * r + 8]);
        let f1 = t0
            .wrapping_add(t1.wrapping_mul(2))
            .wrapping_add(self.k[2 * r + 9]);
        (f0, f1)
    }

    pub fn encrypt(&self, block: &mut [u8]) {
        assert_eq!(block.len(), Self::BLOCK);
        let mut r = [0u32; 4];
        for i in 0..4 {
            let p = u32::from_le_bytes([
                block[4 * i],
                block[4 * i + 1],
                block[4 * i + 2],
                block[4 * i + 3],
            ]);
            r[i] = p ^ self.k[i]; // input whitening
        }
        for round in 0..16 {
            let (f0, f1) = self.f(r[0], r[1], round);
            let n0 = (r[2] ^ f0).rotate_right(1);
            let n1 = r[3].rotate_left(1) ^ f1;
            r = [n0, n1, r[0], r[1]];
        }
        // Undo the last swap and apply the output whitening: C_i = R_{16,(i+2) mod 4} ^ K_{i+4}.
        for i in 0..4 {
            let c = r[(i + 2) % 4] ^ self.k[i + 4];
            block[4 * i..4 * i + 4].copy_from_slice(&c.to_le_bytes());
        }
    }

    pub fn decrypt(&self, block: &mut [u8]) {
        assert_eq!(block.len(), Self::BLOCK);
        let mut r = [0u32; 4];
        for i in 0..4 {
            let c = u32::from_le_bytes([
                block[4 * i],
                block[4 * i + 1],
                block[4 * i + 2],
                block[4 * i + 3],
            ]);
            r[(i + 2) % 4] = c ^ self.k[i + 4];
        }
        for round in (0..16).rev() {
            // r = R_{round+1}; recover R_round.
            let p0 = r[2];
            let p1 = r[3];
            let (f0, f1) = self.f(p0, p1, round);
            let p2 = r[0].rotate_left(1) ^ f0;
            let p3 = (r[1] ^ f1).rotate_right(1);
            r = [p0, p1, p2, p3];
        }
        for i in 0..4 {
            let p = r[i] ^ self.k[i];
            block[4 * i..4 * i + 4].copy_from_slice(&p.to_le_bytes());
        }
    }
}

#[cfg(test)]
mod tests {
    use super::*;

    fn unhex(s: &str) -> Vec<u8> {
        (0..s.len() / 2)
            .map(|i| u8::from_str_radix(&s[2 * i..2 * i + 2], 16).unwrap())
            .collect()
    }

    fn hex(b: &[u8]) -> String {
        b.iter().map(|x| format!("{:02X}", x)).collect()
    }

    /// Twofish paper, appendix "Test vectors" (also ECB_IVAL.TXT of the AES submission):
    /// (key, plaintext, ciphertext).
    const PAPER_KAT: &[(&str, &str, &str)] = &[
        (
            "00000000000000000000000000000000",
            "00000000000000000000000000000000",
            "9F589F5CF6122C32B6BFEC2F2AE8C35A",
        ),
        (
            "0123456789ABCDEFFEDCBA98765432100011223344556677",
            "00000000000000000000000000000000",
            "CFD1D2E5A9BE9CDF501F13B892BD2248",
        ),
        (
            "0123456789ABCDEFFEDCBA987654321000112233445566778899AABBCCDDEEFF",
            "00000000000000000000000000000000",
            "37527BE0052334B89F0CFCCAE87CFA20",
        ),
    ];

    #[test]
    fn paper_known_answers() {
        for (k, p, c) in PAPER_KAT {
            let (k, p, c) = (unhex(k), unhex(p), unhex(c));
            let m = Twofish::new(&k).unwrap();
            let mut b = p.clone();
            m.encrypt(&mut b);
            assert_eq!(hex(&b), hex(&c));
            m.decrypt(&mut b);
            assert_eq!(b, p);
        }
    }

    /// Intermediate values printed with the paper's test vectors (ECB_IVAL.TXT): the first and
    /// last expanded key words and the S-box key words. Source of the numbers: the paper's
    /// tables as reproduced in /repo/twofish/src/tests.rs.
    #[test]
    fn paper_subkeys() {
        let m = Twofish::new(&[0u8; 16]).unwrap();
        assert_eq!(m.k[..8], [
            0x52C54DDE, 0x11F0626D, 0x7CAC9D4A, 0x4D1B4AAA, 0xB7B83A10, 0x1E7D0BEB, 0xEE9C341F,
            0xCFE14BE4
        ]);
        assert_eq!(m.k[36..], [0x1FE71844, 0x85C05C89, 0xF298311E, 0x696EA672]);
        assert_eq!(m.s, vec![0, 0]);

        let m = Twofish::new(&unhex(PAPER_KAT[1].0)).unwrap();
        assert_eq!(m.k[..8], [
            0x38394A24, 0xC36D1175, 0xE802528F, 0x219BFEB4, 0xB9141AB4, 0xBD3E70CD, 0xAF609383,
            0xFD36908A
        ]);
        assert_eq!(m.k[36..], [0x4235364D, 0x0CEC363A, 0x57C8DD1F, 0x6A1AD61E]);
        // S-box key: S_2 = 45661061, S_1 = B255BC4B, S_0 = B89FF6F2 (listed S_{k-1} first).
        assert_eq!(m.s, vec![0x45661061, 0xB255BC4B, 0xB89FF6F2]);

        let m = Twofish::new(&unhex(PAPER_KAT[2].0)).unwrap();
        assert_eq!(m.k[..8], [
            0x5EC769BF, 0x44D13C60, 0x76CD39B1, 0x16750474, 0x349C294B, 0xEC21F6D6, 0x4FBD10B4,
            0x578DA0ED
        ]);
        assert_eq!(m.k[36..], [0x3A9247F7, 0x9A3331DD, 0xEE7515E6, 0xF0D54DCD]);
        assert_eq!(m.s, vec![0x8E4447F7, 0x45661061, 0xB255BC4B, 0xB89FF6F2]);
    }

    /// ECB_TBL.TXT of the Twofish AES submission ("table" known-answer test): iteration I uses
    /// key = (previous plaintext || leading bytes of previous key), plaintext = previous
    /// ciphertext. Entries I = 1..5 and 48 (values as listed in /repo/twofish/tests/mod.rs).
    fn table_test(key_len: usize, expected: &[(usize, &str)]) {
        let mut key = vec![0u8; key_len];
        let mut plain = [0u8; 16];
        for i in 1..50 {
            let m = Twofish::new(&key).unwrap();
            let mut ct = plain;
            m.encrypt(&mut ct);
            let mut back = ct;
            m.decrypt(&mut back);
            assert_eq!(back, plain);
            for (n, want) in expected {
                if *n == i {
                    assert_eq!(hex(&ct), *want, "key_len {key_len} I={i}");
                }
            }
            let old = key.clone();
            key[..16].copy_from_slice(&plain);
            key[16..].copy_from_slice(&old[..key_len - 16]);
            plain = ct;
        }
    }

    #[test]
    fn ecb_tbl_128() {
        table_test(16, &[
            (1, "9F589F5CF6122C32B6BFEC2F2AE8C35A"),
            (2, "D491DB16E7B1C39E86CB086B789F5419"),
            (3, "019F9809DE1711858FAAC3A3BA20FBC3"),
            (4, "6363977DE839486297E661C6C9D668EB"),
            (5, "816D5BD0FAE35342BF2A7412C246F752"),
            (48, "6B459286F3FFD28D49F15B1581B08E42"),
        ]);
    }

    #[test]
    fn ecb_tbl_192() {
        table_test(24, &[
            (1, "EFA71F788965BD4453F860178FC19101"),
            (2, "88B2B2706B105E36B446BB6D731A1E88"),
            (3, "39DA69D6BA4997D585B6DC073CA341B2"),
            (4, "182B02D81497EA45F9DAACDC29193A65"),
            (5, "7AFF7A70CA2FF28AC31DD8AE5DAAAB63"),
            (48, "F0AB73301125FA21EF70BE5385FB76B6"),
        ]);
    }

    #[test]
    fn ecb_tbl_256() {
        table_test(32, &[
            (1, "57FF739D4DC92C1BD7FC01700CC8216F"),
            (2, "D43BB7556EA32E46F2A282B7D45B4E0D"),
            (3, "90AFE91BB288544F2C32DC239B2635E6"),
            (4, "6CB4561C40BF0A9705931CB6D408E7FA"),
            (5, "3059D6D61753B958D92F4781C8640E58"),
            (48, "431058F4DBC7F734DA4F02F04CC4F459"),
        ]);
    }

    #[test]
    fn key_lengths() {
        for len in 0..=40 {
            assert_eq!(
                Twofish::new(&vec![0u8; len]).is_some(),
                len == 16 || len == 24 || len == 32
            );
        }
    }

    /// q0 and q1 must be permutations of 0..=255; first entries as printed in the reference
    /// implementation's expanded tables (q0 = A9 67 B3 E8 ..., q1 = 75 F3 C6 F4 ...).
    #[test]
    fn q_permutations() {
        for f in [q0 as fn(u8) -> u8, q1] {
            let mut seen = [false; 256];
            for x in 0..=255u8 {
                seen[f(x) as usize] = true;
            }
            assert!(seen.iter().all(|&b| b));
        }
        assert_eq!([q0(0), q0(1), q0(2), q0(3)], [0xA9, 0x67, 0xB3, 0xE8]);
        assert_eq!([q1(0), q1(1), q1(2), q1(3)], [0x75, 0xF3, 0xC6, 0xF4]);
    }
}
