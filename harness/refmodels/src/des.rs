//! Reference model of DES and Triple-DES (FIPS 46-3, NIST SP 800-67), written from the
//! standard in its most literal form.
//!
//! Bit numbering is the standard's: bit 1 is the leftmost (most significant) bit of a block,
//! i.e. the most significant bit of the first byte. All tables below are the tables printed
//! in FIPS 46-3 (1-based bit numbers; S-boxes as 4 rows x 16 columns, row selected by the
//! first and last of the six input bits, column by the middle four).
//!
//! A w-bit string is held in the low w bits of a `u64`, bit 1 being the most significant of
//! those w bits. The 64 key bits include 8 parity bits (bits 8, 16, ..., 64 = the least
//! significant bit of every key byte); PC-1 never selects them, so they are ignored.

/// Initial permutation IP.
const IP: [u8; 64] = [
    58, 50, 42, 34, 26, 18, 10, 2, //
    60, 52, 44, 36, 28, 20, 12, 4, //
    62, 54, 46, 38, 30, 22, 14, 6, //
    64, 56, 48, 40, 32, 24, 16, 8, //
    57, 49, 41, 33, 25, 17, 9, 1, //
    59, 51, 43, 35, 27, 19, 11, 3, //
    61, 53, 45, 37, 29, 21, 13, 5, //
    63, 55, 47, 39, 31, 23, 15, 7,
];

/// Inverse initial permutation IP^-1 (the final permutation).
const FP: [u8; 64] = [
    40, 8, 48, 16, 56, 24, 64, 32, //
    39, 7, 47, 15, 55, 23, 63, 31, //
    38, 6, 46, 14, 54, 22, 62, 30, //
    37, 5, 45, 13, 53, 21, 61, 29, //
    36, 4, 44, 12, 52, 20, 60, 28, //
    35, 3, 43, 11, 51, 19, 59, 27, //
    34, 2, 42, 10, 50, 18, 58, 26, //
    33, 1, 41, 9, 49, 17, 57, 25,
];

/// E bit-selection table (32 -> 48 bits).
const E: [u8; 48] = [
    32, 1, 2, 3, 4, 5, //
    4, 5, 6, 7, 8, 9, //
    8, 9, 10, 11, 12, 13, //
    12, 13, 14, 15, 16, 17, //
    16, 17, 18, 19, 20, 21, //
    20, 21, 22, 23, 24, 25, //
    24, 25, 26, 27, 28, 29, //
    28, 29, 30, 31, 32, 1,
];

/// Permutation P (32 -> 32 bits).
const P: [u8; 32] = [
    16, 7, 20, 21, //
    29, 12, 28, 17, //
    1, 15, 23, 26, //
    5, 18, 31, 10, //
    2, 8, 24, 14, //
    32, 27, 3, 9, //
    19, 13, 30, 6, //
    22, 11, 4, 25,
];

/// Permuted choice 1, upper part (selects C0 from the 64 key bits).
const PC1_C: [u8; 28] = [
    57, 49, 41, 33, 25, 17, 9, //
    1, 58, 50, 42, 34, 26, 18, //
    10, 2, 59, 51, 43, 35, 27, //
    19, 11, 3, 60, 52, 44, 36,
];

/// Permuted choice 1, lower part (selects D0 from the 64 key bits).
const PC1_D: [u8; 28] = [
    63, 55, 47, 39, 31, 23, 15, //
    7, 62, 54, 46, 38, 30, 22, //
    14, 6, 61, 53, 45, 37, 29, //
    21, 13, 5, 28, 20, 12, 4,
];

/// Permuted choice 2 (selects the 48-bit K_n from the 56-bit C_n D_n).
const PC2: [u8; 48] = [
    14, 17, 11, 24, 1, 5, //
    3, 28, 15, 6, 21, 10, //
    23, 19, 12, 4, 26, 8, //
    16, 7, 27, 20, 13, 2, //
    41, 52, 31, 37, 47, 55, //
    30, 40, 51, 45, 33, 48, //
    44, 49, 39, 56, 34, 53, //
    46, 42, 50, 36, 29, 32,
];

/// Number of left shifts per key-schedule iteration.
const SHIFTS: [u32; 16] = [1, 1, 2, 2, 2, 2, 2, 2, 1, 2, 2, 2, 2, 2, 2, 1];

/// The primitive functions S1..S8, each as printed: 4 rows (0..3) of 16 columns (0..15).
const S: [[[u8; 16]; 4]; 8] = [
    // S1
    [
        [14, 4, 13, 1, 2, 15, 11, 8, 3, 10, 6, 12, 5, 9, 0, 7],
        [0, 15, 7, 4, 14, 2, 13, 1, 10, 6, 12, 11, 9, 5, 3, 8],
        [4, 1, 14, 8, 13, 6, 2, 11, 15, 12, 9, 7, 3, 10, 5, 0],
        [15, 12, 8, 2, 4, 9, 1, 7, 5, 11, 3, 14, 10, 0, 6, 13],
    ],
    // S2
    [
        [15, 1, 8, 14, 6, 11, 3, 4, 9, 7, 2, 13, 12, 0, 5, 10],
        [3, 13, 4, 7, 15, 2, 8, 14, 12, 0, 1, 10, 6, 9, 11, 5],
        [0, 14, 7, 11, 10, 4, 13, 1, 5, 8, 12, 6, 9, 3, 2, 15],
        [13, 8, 10, 1, 3, 15, 4, 2, 11, 6, 7, 12, 0, 5, 14, 9],
    ],
    // S3
    [
        [10, 0, 9, 14, 6, 3, 15, 5, 1, 13, 12, 7, 11, 4, 2, 8],
        [13, 7, 0, 9, 3, 4, 6, 10, 2, 8, 5, 14, 12, 11, 15, 1],
        [13, 6, 4, 9, 8, 15, 3, 0, 11, 1, 2, 12, 5, 10, 14, 7],
        [1, 10, 13, 0, 6, 9, 8, 7, 4, 15, 14, 3, 11, 5, 2, 12],
    ],
    // S4
    [
        [7, 13, 14, 3, 0, 6, 9, 10, 1, 2, 8, 5, 11, 12, 4, 15],
        [13, 8, 11, 5, 6, 15, 0, 3, 4, 7, 2, 12, 1, 10, 14, 9],
        [10, 6, 9, 0, 12, 11, 7, 13, 15, 1, 3, 14, 5, 2, 8, 4],
        [3, 15, 0, 6, 10, 1, 13, 8, 9, 4, 5, 11, 12, 7, 2, 14],
    ],
    // S5
    [
        [2, 12, 4, 1, 7, 10, 11, 6, 8, 5, 3, 15, 13, 0, 14, 9],
        [14, 11, 2, 12, 4, 7, 13, 1, 5, 0, 15, 10, 3, 9, 8, 6],
        [4, 2, 1, 11, 10, 13, 7, 8, 15, 9, 12, 5, 6, 3, 0, 14],
        [11, 8, 12, 7, 1, 14, 2, 13, 6, 15, 0, 9, 10, 4, 5, 3],
    ],
    // S6
    [
        [12, 1, 10, 15, 9, 2, 6, 8, 0, 13, 3, 4, 14, 7, 5, 11],
        [10, 15, 4, 2, 7, 12, 9, 5, 6, 1, 13, 14, 0, 11, 3, 8],
        [9, 14, 15, 5, 2, 8, 12, 3, 7, 0, 4, 10, 1, 13, 11, 6],
        [4, 3, 2, 12, 9, 5, 15, 10, 11, 14, 1, 7, 6, 0, 8, 13],
    ],
    // S7
    [
        [4, 11, 2, 14, 15, 0, 8, 13, 3, 12, 9, 7, 5, 10, 6, 1],
        [13, 0, 11, 7, 4, 9, 1, 10, 14, 3, 5, 12, 2, 15, 8, 6],
        [1, 4, 11, 13, 12, 3, 7, 14, 10, 15, 6, 8, 0, 5, 9, 2],
        [6, 11, 13, 8, 1, 4, 10, 7, 9, 5, 0, 15, 14, 2, 3, 12],
    ],
    // S8
    [
        [13, 2, 8, 4, 6, 15, 11, 1, 10, 9, 3, 14, 5, 0, 12, 7],
        [1, 15, 13, 8, 10, 3, 7, 4, 12, 5, 6, 11, 0, 14, 9, 2],
        [7, 11, 4, 1, 9, 12, 14, 2, 0, 6, 10, 13, 15, 3, 5, 8],
        [2, 1, 14, 7, 4, 10, 8, 13, 15, 12, 9, 0, 3, 5, 6, 11],
    ],
];

/// Bit `n` (1-based, 1 = leftmost) of the `width`-bit string `x`.
fn bit(x: u64, width: u32, n: u32) -> u64 {
    (x >> (width - n)) & 1
}

/// Apply a bit-selection table: output bit i (1-based) is input bit `table[i-1]` of the
/// `in_width`-bit string `x`. The output has `table.len()` bits.
fn select(x: u64, in_width: u32, table: &[u8]) -> u64 {
    let mut out = 0u64;
    for &n in table {
        out = (out << 1) | bit(x, in_width, n as u32);
    }
    out
}

/// Circular left shift of a 28-bit string.
fn rotl28(x: u64, n: u32) -> u64 {
    ((x << n) | (x >> (28 - n))) & 0x0fff_ffff
}

/// The cipher function f(R, K) of FIPS 46-3: P(S1(B1) .. S8(B8)), B1..B8 = K xor E(R).
fn f(r: u64, k: u64) -> u64 {
    let x = select(r, 32, &E) ^ k; // 48 bits
    let mut out = 0u64;
    for i in 0..8 {
        // B_{i+1}: bits 6i+1 .. 6i+6 of the 48-bit string
        let b = (x >> (42 - 6 * i)) & 0x3f;
        let row = (((b >> 5) & 1) << 1) | (b & 1);
        let col = (b >> 1) & 0xf;
        out = (out << 4) | S[i as usize][row as usize][col as usize] as u64;
    }
    select(out, 32, &P)
}

/// The 28-bit halves C0 and D0 produced by PC-1 (bit 1 of each half is bit 27 of the `u32`).
pub fn pc1_halves(key: &[u8; 8]) -> (u32, u32) {
    let k = u64::from_be_bytes(*key);
    (select(k, 64, &PC1_C) as u32, select(k, 64, &PC1_D) as u32)
}

/// True iff the 28-bit string is a 4-bit pattern of even Hamming weight repeated 7 times.
fn half_is_degenerate(h: u32) -> bool {
    let pat = h & 0xf;
    if pat.count_ones() % 2 != 0 {
        return false;
    }
    (0..7).all(|i| (h >> (4 * i)) & 0xf == pat)
}

/// True iff the key (parity bits ignored) is one of the 64 weak, semi-weak or possibly-weak
/// DES keys listed in NIST SP 800-67 (section 3.4.2): both C0 and D0 are a 4-bit even-weight
/// pattern (0000, 1111, 0101, 1010, 0011, 0110, 1001, 1100) repeated seven times.
pub fn is_nist_weak(key: &[u8; 8]) -> bool {
    let (c, d) = pc1_halves(key);
    half_is_degenerate(c) && half_is_degenerate(d)
}

/// Single DES.
#[derive(Clone)]
pub struct Des {
    /// K1..K16, 48 bits each.
    k: [u64; 16],
}

impl Des {
    pub const BLOCK: usize = 8;

    /// Key schedule KS of FIPS 46-3. `None` unless the key has exactly 8 bytes.
    pub fn new(key: &[u8]) -> Option<Self> {
        if key.len() != 8 {
            return None;
        }
        let mut kb = [0u8; 8];
        kb.copy_from_slice(key);
        let (c0, d0) = pc1_halves(&kb);
        let mut c = c0 as u64;
        let mut d = d0 as u64;
        let mut k = [0u64; 16];
        for n in 0..16 {
            c = rotl28(c, SHIFTS[n]);
            d = rotl28(d, SHIFTS[n]);
            k[n] = select((c << 28) | d, 56, &PC2);
        }
        Some(Des { k })
    }

    /// The sixteen 48-bit round keys K1..K16.
    pub fn subkeys(&self) -> &[u64; 16] {
        &self.k
    }

    fn crypt(&self, block: &mut [u8], decrypt: bool) {
        assert_eq!(block.len(), Self::BLOCK);
        let mut b = [0u8; 8];
        b.copy_from_slice(block);
        let x = select(u64::from_be_bytes(b), 64, &IP);
        let mut l = x >> 32;
        let mut r = x & 0xffff_ffff;
        for n in 0..16 {
            let k = if decrypt { self.k[15 - n] } else { self.k[n] };
            let new_r = l ^ f(r, k);
            l = r;
            r = new_r;
        }
        // pre-output block is R16 L16
        let out = select((r << 32) | l, 64, &FP);
        block.copy_from_slice(&out.to_be_bytes());
    }

    pub fn encrypt(&self, block: &mut [u8]) {
        self.crypt(block, false);
    }

    pub fn decrypt(&self, block: &mut [u8]) {
        self.crypt(block, true);
    }
}

/// Triple DES: three single-DES stages with keys k1, k2, k3 applied in that order on
/// encryption. EDE (SP 800-67 TDEA): E_k3(D_k2(E_k1(p))). EEE: E_k3(E_k2(E_k1(p))).
#[derive(Clone)]
pub struct Tdes {
    d1: Des,
    d2: Des,
    d3: Des,
    /// true: the middle stage is a decryption (EDE); false: EEE.
    ede: bool,
}

impl Tdes {
    pub const BLOCK: usize = 8;

    fn build(key: &[u8], parts: usize, ede: bool) -> Option<Self> {
        if key.len() != 8 * parts {
            return None;
        }
        let d1 = Des::new(&key[0..8])?;
        let d2 = Des::new(&key[8..16])?;
        let d3 = if parts == 3 {
            Des::new(&key[16..24])?
        } else {
            d1.clone()
        };
        Some(Tdes { d1, d2, d3, ede })
    }

    /// 24-byte key k1 || k2 || k3, E_k3(D_k2(E_k1(p))).
    pub fn new_ede3(key: &[u8]) -> Option<Self> {
        Self::build(key, 3, true)
    }
    /// 16-byte key k1 || k2, k3 = k1, E_k1(D_k2(E_k1(p))).
    pub fn new_ede2(key: &[u8]) -> Option<Self> {
        Self::build(key, 2, true)
    }
    /// 24-byte key k1 || k2 || k3, E_k3(E_k2(E_k1(p))).
    pub fn new_eee3(key: &[u8]) -> Option<Self> {
        Self::build(key, 3, false)
    }
    /// 16-byte key k1 || k2, k3 = k1, E_k1(E_k2(E_k1(p))).
    pub fn new_eee2(key: &[u8]) -> Option<Self> {
        Self::build(key, 2, false)
    }

    pub fn encrypt(&self, block: &mut [u8]) {
        self.d1.encrypt(block);
        if self.ede {
            self.d2.decrypt(block);
        } else {
            self.d2.encrypt(block);
        }
        self.d3.encrypt(block);
    }

    pub fn decrypt(&self, block: &mut [u8]) {
        self.d3.decrypt(block);
        if self.ede {
            self.d2.encrypt(block);
        } else {
            self.d2.decrypt(block);
        }
        self.d1.decrypt(block);
    }
}

#[cfg(test)]
mod tests {
    use super::*;

    fn hex(s: &str) -> Vec<u8> {
        let s: String = s.chars().filter(|c| !c.is_whitespace()).collect();
        assert!(s.len() % 2 == 0);
        (0..s.len() / 2)
            .map(|i| u8::from_str_radix(&s[2 * i..2 * i + 2], 16).unwrap())
            .collect()
    }
    fn hex8(s: &str) -> [u8; 8] {
        let mut a = [0u8; 8];
        a.copy_from_slice(&hex(s));
        a
    }
    fn check(key: &str, pt: &str, ct: &str) {
        let d = Des::new(&hex(key)).unwrap();
        let mut b = hex(pt);
        d.encrypt(&mut b);
        assert_eq!(b, hex(ct), "enc key={key} pt={pt}");
        d.decrypt(&mut b);
        assert_eq!(b, hex(pt), "dec key={key} ct={ct}");
    }

    /// Structural sanity of the printed tables.
    #[test]
    fn tables_well_formed() {
        let is_perm = |t: &[u8], n: usize| {
            let mut seen = vec![false; n + 1];
            t.iter().all(|&x| {
                let x = x as usize;
                x >= 1 && x <= n && !std::mem::replace(&mut seen[x], true)
            })
        };
        assert!(is_perm(&IP, 64));
        assert!(is_perm(&FP, 64));
        assert!(is_perm(&P, 32));
        // FP is the inverse of IP
        for i in 0..64 {
            assert_eq!(FP[IP[i] as usize - 1] as usize, i + 1);
        }
        // PC-1 selects each of the 56 non-parity bits once
        let mut pc1: Vec<u8> = PC1_C.iter().chain(PC1_D.iter()).copied().collect();
        assert!(is_perm(&pc1, 64));
        assert!(pc1.iter().all(|b| b % 8 != 0));
        pc1.sort();
        assert_eq!(pc1.len(), 56);
        // PC-2 selects 48 distinct bits of 56, first 24 from C and last 24 from D
        assert!(is_perm(&PC2, 56));
        assert!(PC2[..24].iter().all(|&b| b <= 28));
        assert!(PC2[24..].iter().all(|&b| b > 28));
        // E: every bit of R is used, the 16 edge bits twice
        let mut cnt = [0u8; 33];
        for &e in E.iter() {
            cnt[e as usize] += 1;
        }
        assert!(cnt[1..].iter().all(|&c| c == 1 || c == 2));
        assert_eq!(cnt[1..].iter().filter(|&&c| c == 2).count(), 16);
        // every S-box row is a permutation of 0..15
        for sb in S.iter() {
            for row in sb.iter() {
                let mut seen = [false; 16];
                for &v in row.iter() {
                    assert!(!seen[v as usize]);
                    seen[v as usize] = true;
                }
            }
        }
        assert_eq!(SHIFTS.iter().sum::<u32>(), 28);
    }

    /// Classic worked example (J. O. Grabbe, "The DES Algorithm Illustrated"), including the
    /// intermediate values K1, K16 and C0/D0 given there.
    #[test]
    fn worked_example() {
        check("133457799BBCDFF1", "0123456789ABCDEF", "85E813540F0AB405");
        let (c0, d0) = pc1_halves(&hex8("133457799BBCDFF1"));
        assert_eq!(c0, 0b1111000_0110011_0010101_0101111);
        assert_eq!(d0, 0b0101010_1011001_1001111_0001111);
        let d = Des::new(&hex("133457799BBCDFF1")).unwrap();
        assert_eq!(d.subkeys()[0], 0b000110_110000_001011_101111_111111_000111_000001_110010);
        assert_eq!(d.subkeys()[15], 0b110010_110011_110110_001011_000011_100001_011111_110101);
    }

    /// NBS Special Publication 500-20 ("Validating the correctness of hardware
    /// implementations of the NBS DES"): IP/E test, variable-key (PC) test, permutation and
    /// substitution-table test samples.
    #[test]
    fn nbs_sp500_20() {
        // Initial permutation and expansion test (key 0101010101010101).
        check("0101010101010101", "8000000000000000", "95F8A5E5DD31D900");
        check("0101010101010101", "4000000000000000", "DD7F121CA5015619");
        check("0101010101010101", "2000000000000000", "2E8653104F3834EA");
        check("0101010101010101", "0000000000000001", "166B40B44ABA4BD6");
        // Inverse permutation test: the same pairs with plaintext/ciphertext swapped.
        check("0101010101010101", "95F8A5E5DD31D900", "8000000000000000");
        // Key permutation (PC-1 / PC-2) test.
        check("8001010101010101", "0000000000000000", "95A8D72813DAA94D");
        check("4001010101010101", "0000000000000000", "0EEC1487DD8C26D5");
        check("0101010101010102", "0000000000000000", "869EFD7F9F265A09");
        // Permutation P test.
        check("1046913489980131", "0000000000000000", "88D55E54F54C97B4");
        // Substitution table test.
        check("7CA110454A1A6E57", "01A1D6D039776742", "690F5B0D9A26939B");
        check("0131D9619DC1376E", "5CD54CA83DEF57DA", "7A389D10354BD271");
        check("07A1133E4A0B2686", "0248D43806F67172", "868EBB51CAB4599A");
        check("3849674C2602319E", "51454B582DDF440A", "7178876E01F19B2A");
        check("1C587F1C13924FEF", "305532286D6F295A", "63FAC0D034D9F793");
    }

    /// FIPS 81 Appendix B, ECB example: key 0123456789abcdef, "Now is the time for all ".
    #[test]
    fn fips81_ecb() {
        check("0123456789ABCDEF", "4E6F772069732074", "3FA40E8A984D4815");
        check("0123456789ABCDEF", "68652074696D6520", "6A271787AB8883F9");
        check("0123456789ABCDEF", "666F7220616C6C20", "893D51EC4B563B53");
    }

    /// NESSIE test vectors for DES (set 1 vector 0, set 2 vector 0, set 3 vector 0 ...);
    /// the same file is the source of RustCrypto `des/tests/data/des.blb`.
    #[test]
    fn nessie_des() {
        check("8000000000000000", "0000000000000000", "95A8D72813DAA94D");
        check("0000000000000000", "8000000000000000", "95F8A5E5DD31D900");
        check("0000000000000000", "0000000000000000", "8CA64DE9C1B123A7");
        check("0101010101010101", "0101010101010101", "994D4DC157B96C52");
        check("FFFFFFFFFFFFFFFF", "FFFFFFFFFFFFFFFF", "7359B2163E4EDC58");
        check("0001020304050607", "0011223344556677", "3EF0A891CF8ED990");
        check("2BD6459F82C5B300", "EA024714AD5C4D84", "126EFE8ED312190A");
    }

    /// Ronald Rivest's DES self-test (1985): X0 = 9474B8E8C73BCA7D,
    /// X(i+1) = E(key = X(i), X(i)) for even i and D(key = X(i), X(i)) for odd i;
    /// X16 must be 1B1A2DDB4C642438.
    #[test]
    fn rivest_chain() {
        let mut x = hex8("9474B8E8C73BCA7D");
        for i in 0..16 {
            let d = Des::new(&x).unwrap();
            if i % 2 == 0 {
                d.encrypt(&mut x);
            } else {
                d.decrypt(&mut x);
            }
            if i == 0 {
                assert_eq!(x, hex8("8DA744E0C94E5E17"));
            }
        }
        assert_eq!(x, hex8("1B1A2DDB4C642438"));
    }

    /// Complementation property E(~k, ~p) = ~E(k, p) and parity-bit independence.
    #[test]
    fn complementation_and_parity() {
        let mut s = 0x243f_6a88_85a3_08d3u64;
        let mut next = || {
            s ^= s << 13;
            s ^= s >> 7;
            s ^= s << 17;
            s
        };
        for _ in 0..200 {
            let k = next().to_be_bytes();
            let p = next().to_be_bytes();
            let nk: Vec<u8> = k.iter().map(|b| !b).collect();
            let mut c = p;
            Des::new(&k).unwrap().encrypt(&mut c);
            let mut nc: Vec<u8> = p.iter().map(|b| !b).collect();
            Des::new(&nk).unwrap().encrypt(&mut nc);
            for i in 0..8 {
                assert_eq!(nc[i], !c[i]);
            }
            let flip = next().to_be_bytes();
            let kp: Vec<u8> = k.iter().zip(flip.iter()).map(|(a, f)| a ^ (f & 1)).collect();
            let mut c2 = p;
            Des::new(&kp).unwrap().encrypt(&mut c2);
            assert_eq!(c, c2);
        }
    }

    /// NIST SP 800-67 Appendix B.1 (TDEA ECB example): keys 0123456789ABCDEF,
    /// 23456789ABCDEF01, 456789ABCDEF0123; plaintext "The qufck brown fox jump".
    #[test]
    fn sp800_67_tdea() {
        let key = hex("0123456789ABCDEF 23456789ABCDEF01 456789ABCDEF0123");
        let t = Tdes::new_ede3(&key).unwrap();
        let pts = ["5468652071756663", "6B2062726F776E20", "666F78206A756D70"];
        let cts = ["A826FD8CE53B855F", "CCE21C8112256FE6", "68D5C05DD9B6B900"];
        for (p, c) in pts.iter().zip(cts.iter()) {
            let mut b = hex(p);
            t.encrypt(&mut b);
            assert_eq!(b, hex(c));
            t.decrypt(&mut b);
            assert_eq!(b, hex(p));
        }
    }

    /// NESSIE Triple-DES vectors (source of RustCrypto `des/tests/data/tdes.blb` and
    /// `tdes2.blb`): 192-bit and 128-bit key, set 1 vector 0 and set 2/3 samples.
    #[test]
    fn nessie_tdes() {
        let zero = [0u8; 8];
        // 3-key, set 1 vector 0: k2 = k3 = 0 so the last two stages cancel.
        let mut k = vec![0u8; 24];
        k[0] = 0x80;
        let t = Tdes::new_ede3(&k).unwrap();
        let mut b = zero;
        t.encrypt(&mut b);
        assert_eq!(b.to_vec(), hex("95A8D72813DAA94D"));
        t.decrypt(&mut b);
        assert_eq!(b, zero);
        // 2-key, set 1 vector 0.
        let mut k = vec![0u8; 16];
        k[0] = 0x80;
        let t = Tdes::new_ede2(&k).unwrap();
        let mut b = zero;
        t.encrypt(&mut b);
        assert_eq!(b.to_vec(), hex("FAFD5084374FCE34"));
        t.decrypt(&mut b);
        assert_eq!(b, zero);
        // Set 4 vector 0: key 000102..., plaintext 0011223344556677.
        let k: Vec<u8> = (0..24u8).collect();
        let p = hex8("0011223344556677");
        let mut b = p;
        Tdes::new_ede3(&k).unwrap().encrypt(&mut b);
        assert_eq!(b.to_vec(), hex("97A25BA82B564F4C"));
        Tdes::new_ede3(&k).unwrap().decrypt(&mut b);
        assert_eq!(b, p);
        let mut b = p;
        Tdes::new_ede2(&k[..16]).unwrap().encrypt(&mut b);
        assert_eq!(b.to_vec(), hex("D117BD6373549FAA"));
        Tdes::new_ede2(&k[..16]).unwrap().decrypt(&mut b);
        assert_eq!(b, p);
        // Set 4 vector 1 (the 192-bit key repeats k1 as k3, so both variants agree).
        let k = hex("2BD6459F82C5B300 952C49104881FF48 2BD6459F82C5B300");
        let p = hex8("EA024714AD5C4D84");
        let mut b = p;
        Tdes::new_ede3(&k).unwrap().encrypt(&mut b);
        assert_eq!(b.to_vec(), hex("C616ACE843958247"));
        let mut b = p;
        Tdes::new_ede2(&k[..16]).unwrap().encrypt(&mut b);
        assert_eq!(b.to_vec(), hex("C616ACE843958247"));
        Tdes::new_ede2(&k[..16]).unwrap().decrypt(&mut b);
        assert_eq!(b, p);
    }

    /// Structural identities of the four TDES variants.
    #[test]
    fn tdes_structure() {
        let k1 = hex("0123456789ABCDEF");
        let k2 = hex("FEDCBA9876543210");
        let k3 = hex("89ABCDEF01234567");
        let p = hex8("0011223344556677");
        let d1 = Des::new(&k1).unwrap();
        let d2 = Des::new(&k2).unwrap();
        let d3 = Des::new(&k3).unwrap();
        let k123: Vec<u8> = [&k1[..], &k2[..], &k3[..]].concat();
        let k12: Vec<u8> = [&k1[..], &k2[..]].concat();
        let k121: Vec<u8> = [&k1[..], &k2[..], &k1[..]].concat();
        let k111: Vec<u8> = [&k1[..], &k1[..], &k1[..]].concat();

        // EDE3 from stages
        let mut a = p;
        d1.encrypt(&mut a);
        d2.decrypt(&mut a);
        d3.encrypt(&mut a);
        let mut b = p;
        Tdes::new_ede3(&k123).unwrap().encrypt(&mut b);
        assert_eq!(a, b);
        // EEE3 from stages
        let mut a = p;
        d1.encrypt(&mut a);
        d2.encrypt(&mut a);
        d3.encrypt(&mut a);
        let mut b = p;
        let t = Tdes::new_eee3(&k123).unwrap();
        t.encrypt(&mut b);
        assert_eq!(a, b);
        t.decrypt(&mut b);
        assert_eq!(b, p);
        // two-key variants equal three-key variants with k3 = k1
        let mut a = p;
        Tdes::new_ede2(&k12).unwrap().encrypt(&mut a);
        let mut b = p;
        Tdes::new_ede3(&k121).unwrap().encrypt(&mut b);
        assert_eq!(a, b);
        let mut a = p;
        let t = Tdes::new_eee2(&k12).unwrap();
        t.encrypt(&mut a);
        let mut b = p;
        Tdes::new_eee3(&k121).unwrap().encrypt(&mut b);
        assert_eq!(a, b);
        t.decrypt(&mut a);
        assert_eq!(a, p);
        // EDE with k1 = k2 = k3 degenerates to single DES (SP 800-67 backward compatibility)
        let mut a = p;
        Tdes::new_ede3(&k111).unwrap().encrypt(&mut a);
        let mut b = p;
        d1.encrypt(&mut b);
        assert_eq!(a, b);
        // key lengths
        for l in 0..40usize {
            let k = vec![0x11u8; l];
            assert_eq!(Des::new(&k).is_some(), l == 8);
            assert_eq!(Tdes::new_ede3(&k).is_some(), l == 24);
            assert_eq!(Tdes::new_eee3(&k).is_some(), l == 24);
            assert_eq!(Tdes::new_ede2(&k).is_some(), l == 16);
            assert_eq!(Tdes::new_eee2(&k).is_some(), l == 16);
        }
    }

    /// The 4 weak and 12 semi-weak keys (SP 800-67 section 3.4.2; Davies, "Some regular
    /// properties of the DES", 1982).
    const WEAK4: [&str; 4] = [
        "0101010101010101",
        "FEFEFEFEFEFEFEFE",
        "E0E0E0E0F1F1F1F1",
        "1F1F1F1F0E0E0E0E",
    ];
    const SEMI12: [&str; 12] = [
        "01FE01FE01FE01FE",
        "FE01FE01FE01FE01",
        "1FE01FE00EF10EF1",
        "E01FE01FF10EF10E",
        "01E001E001F101F1",
        "E001E001F101F101",
        "1FFE1FFE0EFE0EFE",
        "FE1FFE1FFE0EFE0E",
        "011F011F010E010E",
        "1F011F010E010E01",
        "E0FEE0FEF1FEF1FE",
        "FEE0FEE0FEF1FEF1",
    ];
    /// The 48 "possibly weak" keys of SP 800-67 section 3.4.2 (keys with only four distinct
    /// subkeys). Transcribed from memory of that list and cross-checked at authoring time
    /// against the 64-entry table in RustCrypto `des/src/consts.rs`; pinned here by
    /// `weak_key_oracle_count`, which re-derives the whole 64-key set by inverting PC-1.
    const POSSIBLY48: [&str; 48] = [
        "01011F1F01010E0E", "1F1F01010E0E0101", "E0E01F1FF1F10E0E",
        "0101E0E00101F1F1", "1F1FE0E00E0EF1F1", "E0E0FEFEF1F1FEFE",
        "0101FEFE0101FEFE", "1F1FFEFE0E0EFEFE", "E0FE011FF1FE010E",
        "011F1F01010E0E01", "1FE001FE0EF101FE", "E0FE1F01F1FE0E01",
        "011FE0FE010EF1FE", "1FE0E01F0EF1F10E", "E0FEFEE0F1FEFEF1",
        "011FFEE0010EFEF1", "1FE0FE010EF1FE01", "FE0101FEFE0101FE",
        "01E01FFE01F10EFE", "1FFE01E00EFE01F1", "FE011FE0FE010EF1",
        "01E0E00101F1F101", "1FFEE0010EFEF101", "FE01E01FFE01F10E",
        "01E0FE1F01F1FE0E", "1FFEFE1F0EFEFE0E", "FE1F01E0FE0E01F1",
        "01FE1FE001FE0EF1", "E00101E0F10101F1", "FE1FE001FE0EF101",
        "01FEE01F01FEF10E", "E0011FFEF1010EFE", "FE1F1FFEFE0E0EFE",
        "01FEFE0101FEFE01", "E001FE1FF101FE0E", "FEE0011FFEF1010E",
        "1F01011F0E01010E", "E01F01FEF10E01FE", "FEE01F01FEF10E01",
        "1F01E0FE0E01F1FE", "E01F1FE0F10E0EF1", "FEE0E0FEFEF1F1FE",
        "1F01FEE00E01FEF1", "E01FFE01F10EFE01", "FEFE0101FEFE0101",
        "E0E00101F1F10101", "FEFE1F1FFEFE0E0E", "FEFEE0E0FEFEF1F1",
    ];

    #[test]
    fn weak_key_oracle_lists() {
        let mut all = std::collections::BTreeSet::new();
        for k in WEAK4.iter().chain(SEMI12.iter()).chain(POSSIBLY48.iter()) {
            let k = hex8(k);
            assert!(is_nist_weak(&k), "{k:02x?}");
            all.insert(k);
            // flipping any subset of parity bits does not change the answer
            for m in 0..256u32 {
                let mut kk = k;
                for i in 0..8 {
                    kk[i] ^= ((m >> i) & 1) as u8;
                }
                assert!(is_nist_weak(&kk));
            }
        }
        assert_eq!(all.len(), 64);
        // weak keys: all 16 subkeys equal, so encryption is an involution;
        // semi-weak pairs: E_k1(E_k2(p)) = p.
        let p = hex8("0123456789ABCDEF");
        for k in WEAK4.iter() {
            let d = Des::new(&hex(k)).unwrap();
            assert!(d.subkeys().iter().all(|s| *s == d.subkeys()[0]));
            let mut b = p;
            d.encrypt(&mut b);
            d.encrypt(&mut b);
            assert_eq!(b, p);
        }
        for pair in SEMI12.chunks(2) {
            let a = Des::new(&hex(pair[0])).unwrap();
            let b = Des::new(&hex(pair[1])).unwrap();
            let mut x = p;
            a.encrypt(&mut x);
            b.encrypt(&mut x);
            assert_eq!(x, p);
        }
        // possibly weak: exactly four distinct subkeys
        for k in POSSIBLY48.iter() {
            let d = Des::new(&hex(k)).unwrap();
            let set: std::collections::BTreeSet<u64> = d.subkeys().iter().copied().collect();
            assert_eq!(set.len(), 4, "{k}");
        }
        // a few ordinary keys
        for k in ["133457799BBCDFF1", "0123456789ABCDEF", "0000000000000002", "01010101010101FE"] {
            assert!(!is_nist_weak(&hex8(k)));
        }
    }

    /// Enumerate the 8 x 8 (C0, D0) pattern combinations, invert PC-1, and check that exactly
    /// 64 distinct 56-bit keys satisfy the predicate and that they are the listed ones.
    #[test]
    fn weak_key_oracle_count() {
        let pats = [0b0000u32, 0b1111, 0b0101, 0b1010, 0b0011, 0b0110, 0b1001, 0b1100];
        let rep7 = |p: u32| (0..7).fold(0u32, |a, _| (a << 4) | p);
        let listed: std::collections::BTreeSet<[u8; 8]> = WEAK4
            .iter()
            .chain(SEMI12.iter())
            .chain(POSSIBLY48.iter())
            .map(|k| hex8(k))
            .collect();
        let mut found = std::collections::BTreeSet::new();
        for &pc in pats.iter() {
            for &pd in pats.iter() {
                let c = rep7(pc);
                let d = rep7(pd);
                // invert PC-1: key bit PC1_C[i] = bit i+1 of C0, likewise for D0
                let mut k = 0u64;
                for i in 0..28 {
                    let cb = ((c >> (27 - i)) & 1) as u64;
                    let db = ((d >> (27 - i)) & 1) as u64;
                    k |= cb << (64 - PC1_C[i] as u32);
                    k |= db << (64 - PC1_D[i] as u32);
                }
                // set odd parity
                let mut kb = k.to_be_bytes();
                for b in kb.iter_mut() {
                    if b.count_ones() % 2 == 0 {
                        *b ^= 1;
                    }
                }
                assert_eq!(pc1_halves(&kb), (c, d));
                assert!(is_nist_weak(&kb));
                found.insert(kb);
            }
        }
        assert_eq!(found.len(), 64);
        assert_eq!(found, listed);
        // Necessity: a half that is a repeated odd-weight pattern, or not 4-periodic, fails.
        assert!(!half_is_degenerate(rep7(0b0001)));
        assert!(!half_is_degenerate(rep7(0b0111)));
        assert!(!half_is_degenerate(rep7(0b0101) ^ 1));
        assert!(!half_is_degenerate(0x0ff_ffff));
    }
}
