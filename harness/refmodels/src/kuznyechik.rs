//! Reference model of "Kuznyechik" (GOST R 34.12-2015, 128-bit block; RFC 7801),
//! written literally from the specification.
//!
//! Conventions
//! -----------
//! * A 128-bit vector `a = a_15 || a_14 || ... || a_0` (a_15 most significant, as in the
//!   standard) is stored in a `[u8; 16]` with **array index 0 = a_15** and index 15 = a_0,
//!   i.e. array byte `i` is the `i`-th hex pair of the standard's printed vectors.
//! * The 256-bit key is `K_1 || K_2`: bytes 0..16 are `K_1`, bytes 16..32 are `K_2`.
//! * GF(2^8) is taken modulo p(x) = x^8 + x^7 + x^6 + x + 1 (0x1C3); multiplication is
//!   a plain shift-and-add.
//! * `pi` is transcribed in the standard's layout (`pi' = (252, 238, 221, ...)`, the value at
//!   position `i` is `pi(i)`); `pi^-1` is computed by inversion.
//! * Iteration constants `C_i = L(Vec_128(i))`, i = 1..32, are computed.

/// The non-linear bijection pi of GOST R 34.12-2015, 4.1.1 (RFC 7801, 4.1), as printed:
/// pi' = (pi(0), pi(1), ..., pi(255)).
const PI: [u8; 256] = [
    252, 238, 221, 17, 207, 110, 49, 22, 251, 196, 250, 218, 35, 197, 4, 77, //
    233, 119, 240, 219, 147, 46, 153, 186, 23, 54, 241, 187, 20, 205, 95, 193, //
    249, 24, 101, 90, 226, 92, 239, 33, 129, 28, 60, 66, 139, 1, 142, 79, //
    5, 132, 2, 174, 227, 106, 143, 160, 6, 11, 237, 152, 127, 212, 211, 31, //
    235, 52, 44, 81, 234, 200, 72, 171, 242, 42, 104, 162, 253, 58, 206, 204, //
    181, 112, 14, 86, 8, 12, 118, 18, 191, 114, 19, 71, 156, 183, 93, 135, //
    21, 161, 150, 41, 16, 123, 154, 199, 243, 145, 120, 111, 157, 158, 178, 177, //
    50, 117, 25, 61, 255, 53, 138, 126, 109, 84, 198, 128, 195, 189, 13, 87, //
    223, 245, 36, 169, 62, 168, 67, 201, 215, 121, 214, 246, 124, 34, 185, 3, //
    224, 15, 236, 222, 122, 148, 176, 188, 220, 232, 40, 80, 78, 51, 10, 74, //
    167, 151, 96, 115, 30, 0, 98, 68, 26, 184, 56, 130, 100, 159, 38, 65, //
    173, 69, 70, 146, 39, 94, 85, 47, 140, 163, 165, 125, 105, 213, 149, 59, //
    7, 88, 179, 64, 134, 172, 29, 247, 48, 55, 107, 228, 136, 217, 231, 137, //
    225, 27, 131, 73, 76, 63, 248, 254, 141, 83, 170, 144, 202, 216, 133, 97, //
    32, 113, 103, 164, 45, 43, 9, 91, 203, 155, 37, 208, 190, 229, 108, 82, //
    89, 166, 116, 210, 230, 244, 180, 192, 209, 102, 175, 194, 57, 75, 99, 182,
];

/// Coefficients of the linear map l(a_15, ..., a_0), listed in the order of its arguments
/// (first coefficient multiplies a_15, last multiplies a_0).
const L_COEF: [u8; 16] = [
    148, 32, 133, 16, 194, 192, 1, 251, 1, 192, 194, 16, 133, 32, 148, 1,
];

type V128 = [u8; 16];

/// Multiplication in GF(2)[x] / (x^8 + x^7 + x^6 + x + 1).
fn gf_mul(a: u8, b: u8) -> u8 {
    let mut acc: u16 = 0;
    let mut aa: u16 = a as u16;
    let mut bb = b;
    while bb != 0 {
        if bb & 1 == 1 {
            acc ^= aa;
        }
        aa <<= 1;
        if aa & 0x100 != 0 {
            aa ^= 0x1C3;
        }
        bb >>= 1;
    }
    acc as u8
}

fn pi_inv_table() -> [u8; 256] {
    let mut inv = [0u8; 256];
    for i in 0..256 {
        inv[PI[i] as usize] = i as u8;
    }
    inv
}

/// l(a_15, ..., a_0); `a[0]` is the first argument (a_15).
fn l_small(a: &V128) -> u8 {
    let mut s = 0u8;
    for j in 0..16 {
        s ^= gf_mul(L_COEF[j], a[j]);
    }
    s
}

/// X[k](a) = k xor a
fn x_tr(k: &V128, a: &V128) -> V128 {
    let mut r = [0u8; 16];
    for i in 0..16 {
        r[i] = k[i] ^ a[i];
    }
    r
}

/// S(a) = pi(a_15) || ... || pi(a_0)
fn s_tr(a: &V128) -> V128 {
    let mut r = [0u8; 16];
    for i in 0..16 {
        r[i] = PI[a[i] as usize];
    }
    r
}

fn s_inv_tr(a: &V128, pi_inv: &[u8; 256]) -> V128 {
    let mut r = [0u8; 16];
    for i in 0..16 {
        r[i] = pi_inv[a[i] as usize];
    }
    r
}

/// R(a_15 || ... || a_0) = l(a_15, ..., a_0) || a_15 || ... || a_1
fn r_tr(a: &V128) -> V128 {
    let mut r = [0u8; 16];
    r[0] = l_small(a);
    for i in 1..16 {
        r[i] = a[i - 1];
    }
    r
}

/// R^-1(a_15 || ... || a_0) = a_14 || a_13 || ... || a_0 || l(a_14, a_13, ..., a_0, a_15)
fn r_inv_tr(a: &V128) -> V128 {
    let mut r = [0u8; 16];
    for i in 0..15 {
        r[i] = a[i + 1];
    }
    // argument list (a_14, ..., a_0, a_15) is exactly the new vector with a_15 appended
    r[15] = a[0];
    r[15] = l_small(&r);
    r
}

/// L = R^16
fn l_tr(a: &V128) -> V128 {
    let mut r = *a;
    for _ in 0..16 {
        r = r_tr(&r);
    }
    r
}

/// L^-1 = (R^-1)^16
fn l_inv_tr(a: &V128) -> V128 {
    let mut r = *a;
    for _ in 0..16 {
        r = r_inv_tr(&r);
    }
    r
}

/// C_i = L(Vec_128(i))
fn iter_const(i: u8) -> V128 {
    let mut v = [0u8; 16];
    v[15] = i; // least significant byte a_0
    l_tr(&v)
}

/// F[k](a1, a0) = (LSX[k](a1) xor a0, a1)
fn f_tr(k: &V128, a1: &V128, a0: &V128) -> (V128, V128) {
    let t = l_tr(&s_tr(&x_tr(k, a1)));
    (x_tr(&t, a0), *a1)
}

pub struct Kuznyechik {
    /// Iteration keys K_1..K_10 (index 0 = K_1).
    rk: [V128; 10],
    pi_inv: [u8; 256],
}

impl Kuznyechik {
    pub const BLOCK: usize = 16;

    pub fn new(key: &[u8]) -> Option<Self> {
        if key.len() != 32 {
            return None;
        }
        let mut k1 = [0u8; 16];
        let mut k2 = [0u8; 16];
        k1.copy_from_slice(&key[..16]);
        k2.copy_from_slice(&key[16..]);
        let mut rk = [[0u8; 16]; 10];
        rk[0] = k1;
        rk[1] = k2;
        // (K_{2i+1}, K_{2i+2}) = F[C_{8(i-1)+8}] ... F[C_{8(i-1)+1}] (K_{2i-1}, K_{2i}), i = 1..4
        for i in 1..=4usize {
            let mut a1 = rk[2 * i - 2];
            let mut a0 = rk[2 * i - 1];
            for j in 1..=8usize {
                let c = iter_const((8 * (i - 1) + j) as u8);
                let (n1, n0) = f_tr(&c, &a1, &a0);
                a1 = n1;
                a0 = n0;
            }
            rk[2 * i] = a1;
            rk[2 * i + 1] = a0;
        }
        Some(Kuznyechik {
            rk,
            pi_inv: pi_inv_table(),
        })
    }

    /// E(a) = X[K_10] LSX[K_9] ... LSX[K_2] LSX[K_1] (a)
    pub fn encrypt(&self, block: &mut [u8]) {
        assert_eq!(block.len(), Self::BLOCK);
        let mut a = [0u8; 16];
        a.copy_from_slice(block);
        for i in 0..9 {
            a = l_tr(&s_tr(&x_tr(&self.rk[i], &a)));
        }
        a = x_tr(&self.rk[9], &a);
        block.copy_from_slice(&a);
    }

    /// D(a) = X[K_1] S^-1 L^-1 X[K_2] ... S^-1 L^-1 X[K_9] S^-1 L^-1 X[K_10] (a)
    pub fn decrypt(&self, block: &mut [u8]) {
        assert_eq!(block.len(), Self::BLOCK);
        let mut a = [0u8; 16];
        a.copy_from_slice(block);
        for i in (1..10).rev() {
            a = s_inv_tr(&l_inv_tr(&x_tr(&self.rk[i], &a)), &self.pi_inv);
        }
        a = x_tr(&self.rk[0], &a);
        block.copy_from_slice(&a);
    }

    /// Iteration keys K_1..K_10 (for tests / diagnostics).
    pub fn round_keys(&self) -> [[u8; 16]; 10] {
        self.rk
    }
}

#[cfg(test)]
mod tests {
    use super::*;

    fn hx(s: &str) -> Vec<u8> {
        let s: String = s.chars().filter(|c| !c.is_whitespace()).collect();
        (0..s.len() / 2)
            .map(|i| u8::from_str_radix(&s[2 * i..2 * i + 2], 16).unwrap())
            .collect()
    }
    fn v(s: &str) -> V128 {
        let mut r = [0u8; 16];
        r.copy_from_slice(&hx(s));
        r
    }

    #[test]
    fn pi_is_permutation() {
        let mut seen = [false; 256];
        for &x in PI.iter() {
            assert!(!seen[x as usize]);
            seen[x as usize] = true;
        }
        let inv = pi_inv_table();
        for i in 0..256 {
            assert_eq!(inv[PI[i] as usize] as usize, i);
        }
    }

    // RFC 7801 section 5.1 / GOST R 34.12-2015 A.1.1: transformation S
    #[test]
    fn s_examples() {
        let chain = [
            "ffeeddccbbaa99881122334455667700",
            "b66cd8887d38e8d77765aeea0c9a7efc",
            "559d8dd7bd06cbfe7e7b262523280d39",
            "0c3322fed531e4630d80ef5c5a81c50b",
            "23ae65633f842d29c5df529c13f5acda",
        ];
        let inv = pi_inv_table();
        for w in chain.windows(2) {
            assert_eq!(s_tr(&v(w[0])), v(w[1]));
            assert_eq!(s_inv_tr(&v(w[1]), &inv), v(w[0]));
        }
    }

    // RFC 7801 section 5.2 / GOST A.1.2: transformation R
    #[test]
    fn r_examples() {
        let chain = [
            "00000000000000000000000000000100",
            "94000000000000000000000000000001",
            "a5940000000000000000000000000000",
            "64a59400000000000000000000000000",
            "0d64a594000000000000000000000000",
        ];
        for w in chain.windows(2) {
            assert_eq!(r_tr(&v(w[0])), v(w[1]));
            assert_eq!(r_inv_tr(&v(w[1])), v(w[0]));
        }
    }

    // RFC 7801 section 5.3 / GOST A.1.3: transformation L
    #[test]
    fn l_examples() {
        let chain = [
            "64a59400000000000000000000000000",
            "d456584dd0e3e84cc3166e4b7fa2890d",
            "79d26221b87b584cd42fbc4ffea5de9a",
            "0e93691a0cfc60408b7b68f66b513c13",
            "e6a8094fee0aa204fd97bcb0b44b8580",
        ];
        for w in chain.windows(2) {
            assert_eq!(l_tr(&v(w[0])), v(w[1]));
            assert_eq!(l_inv_tr(&v(w[1])), v(w[0]));
        }
    }

    const KEY: &str = "8899aabbccddeeff0011223344556677fedcba98765432100123456789abcdef";

    // RFC 7801 section 5.4 / GOST A.1.4: iteration constants C_1..C_8 and iteration keys
    #[test]
    fn key_schedule_examples() {
        let c = [
            "6ea276726c487ab85d27bd10dd849401",
            "dc87ece4d890f4b3ba4eb92079cbeb02",
            "b2259a96b4d88e0be7690430a44f7f03",
            "7bcd1b0b73e32ba5b79cb140f2551504",
            "156f6d791fab511deabb0c502fd18105",
            "a74af7efab73df160dd208608b9efe06",
            "c9e8819dc73ba5ae50f5b570561a6a07",
            "f6593616e6055689adfba18027aa2a08",
        ];
        for (i, s) in c.iter().enumerate() {
            assert_eq!(iter_const(i as u8 + 1), v(s), "C_{}", i + 1);
        }
        let k = [
            "8899aabbccddeeff0011223344556677",
            "fedcba98765432100123456789abcdef",
            "db31485315694343228d6aef8cc78c44",
            "3d4553d8e9cfec6815ebadc40a9ffd04",
            "57646468c44a5e28d3e59246f429f1ac",
            "bd079435165c6432b532e82834da581b",
            "51e640757e8745de705727265a0098b1",
            "5a7925017b9fdd3ed72a91a22286f984",
            "bb44e25378c73123a5f32f73cdb6e517",
            "72e9dd7416bcf45b755dbaa88e4a4043",
        ];
        let m = Kuznyechik::new(&hx(KEY)).unwrap();
        let rk = m.round_keys();
        for i in 0..10 {
            assert_eq!(rk[i], v(k[i]), "K_{}", i + 1);
        }
    }

    // RFC 7801 sections 5.5, 5.6 / GOST R 34.12-2015 A.1.5, A.1.6
    #[test]
    fn encrypt_decrypt_example() {
        let m = Kuznyechik::new(&hx(KEY)).unwrap();
        let pt = hx("1122334455667700ffeeddccbbaa9988");
        let ct = hx("7f679d90bebc24305a468d42b9d4edcd");
        let mut b = pt.clone();
        m.encrypt(&mut b);
        assert_eq!(b, ct);
        m.decrypt(&mut b);
        assert_eq!(b, pt);
    }

    #[test]
    fn key_length() {
        assert!(Kuznyechik::new(&[0u8; 31]).is_none());
        assert!(Kuznyechik::new(&[0u8; 33]).is_none());
        assert!(Kuznyechik::new(&[0u8; 16]).is_none());
    }
}
