//! Reference model of IDEA (Lai / Massey, "Markov Ciphers and Differential Cryptanalysis",
//! EUROCRYPT '91; description as in Lai's thesis / Schneier, Applied Cryptography 13.9 /
//! Menezes et al., HAC Algorithm 7.101).
//!
//! * Block: 8 bytes = X1 X2 X3 X4, four big-endian 16-bit words.
//! * Key: 16 bytes, read as one 128-bit big-endian integer.
//! * Three group operations on 16-bit words:
//!     `^`   bitwise XOR,
//!     `add` addition modulo 2^16,
//!     `mul` multiplication modulo 2^16 + 1, where the word 0 stands for 2^16.
//! * 52 encryption subkeys Z1..Z52: the key is cut into eight 16-bit words, then rotated left
//!   by 25 bits and cut again, and so on until 52 words have been produced.
//! * 8 rounds using six subkeys each, then the output transformation using four.
//! * Decryption is the same computation with the decryption subkeys of HAC Table 7.13.

/// Multiplication in the group Z*_{65537}; 0 represents 2^16.
fn mul(a: u16, b: u16) -> u16 {
    let a: u64 = if a == 0 { 0x10000 } else { a as u64 };
    let b: u64 = if b == 0 { 0x10000 } else { b as u64 };
    let p = (a * b) % 65537;
    // p is in 1..=65536; 65536 is written as the word 0
    if p == 0x10000 {
        0
    } else {
        p as u16
    }
}

fn add(a: u16, b: u16) -> u16 {
    a.wrapping_add(b)
}

/// Multiplicative inverse modulo 2^16 + 1 (a prime): a^(p-2) = a^65535, with 0 <-> 2^16.
fn mul_inv(a: u16) -> u16 {
    let mut r: u16 = 1;
    let mut base = a;
    let mut e: u32 = 65535;
    while e > 0 {
        if e & 1 == 1 {
            r = mul(r, base);
        }
        base = mul(base, base);
        e >>= 1;
    }
    r
}

/// Additive inverse modulo 2^16.
fn add_inv(a: u16) -> u16 {
    0u16.wrapping_sub(a)
}

pub struct Idea {
    /// Z1..Z52 at indices 0..52: round r (1..=8) uses ek[6(r-1) .. 6(r-1)+6], the output
    /// transformation uses ek[48..52].
    ek: [u16; 52],
    /// Decryption subkeys, same arrangement.
    dk: [u16; 52],
}

impl Idea {
    pub const BLOCK: usize = 8;

    pub fn new(key: &[u8]) -> Option<Self> {
        if key.len() != 16 {
            return None;
        }
        let mut k128 = 0u128;
        for &b in key {
            k128 = (k128 << 8) | b as u128;
        }
        // Encryption subkeys.
        let mut ek = [0u16; 52];
        let mut n = 0;
        'outer: loop {
            for j in 0..8 {
                if n == 52 {
                    break 'outer;
                }
                // j-th 16-bit word from the left
                ek[n] = (k128 >> (112 - 16 * j)) as u16;
                n += 1;
            }
            k128 = k128.rotate_left(25);
        }

        // Decryption subkeys (HAC Table 7.13). z(r, j) = Z_j of round r, r = 1..9 (9 = output
        // transformation), j = 1..6.
        let z = |r: usize, j: usize| ek[6 * (r - 1) + (j - 1)];
        let mut dk = [0u16; 52];
        for r in 1..=9 {
            let o = 6 * (r - 1);
            dk[o] = mul_inv(z(10 - r, 1));
            dk[o + 3] = mul_inv(z(10 - r, 4));
            if r == 1 || r == 9 {
                dk[o + 1] = add_inv(z(10 - r, 2));
                dk[o + 2] = add_inv(z(10 - r, 3));
            } else {
                dk[o + 1] = add_inv(z(10 - r, 3));
                dk[o + 2] = add_inv(z(10 - r, 2));
            }
            if r <= 8 {
                dk[o + 4] = z(9 - r, 5);
                dk[o + 5] = z(9 - r, 6);
            }
        }
        Some(Idea { ek, dk })
    }

    /// The IDEA computation with subkey list `k` (either `ek` or `dk`).
    fn crypt(k: &[u16; 52], block: &mut [u8]) {
        assert_eq!(block.len(), Self::BLOCK);
        let mut x1 = u16::from_be_bytes([block[0], block[1]]);
        let mut x2 = u16::from_be_bytes([block[2], block[3]]);
        let mut x3 = u16::from_be_bytes([block[4], block[5]]);
        let mut x4 = u16::from_be_bytes([block[6], block[7]]);
        for r in 1..=8 {
            let z = &k[6 * (r - 1)..6 * r];
            // The fourteen steps of a round.
            let s1 = mul(x1, z[0]);
            let s2 = add(x2, z[1]);
            let s3 = add(x3, z[2]);
            let s4 = mul(x4, z[3]);
            let s5 = s1 ^ s3;
            let s6 = s2 ^ s4;
            let s7 = mul(s5, z[4]);
            let s8 = add(s6, s7);
            let s9 = mul(s8, z[5]);
            let s10 = add(s7, s9);
            let s11 = s1 ^ s9;
            let s12 = s3 ^ s9;
            let s13 = s2 ^ s10;
            let s14 = s4 ^ s10;
            // Round output with the two inner words exchanged: the word derived from the
            // third input becomes the second input of the next round and vice versa...
            x1 = s11;
            x2 = s12;
            x3 = s13;
            x4 = s14;
            // ... except after the last round, where the exchange is not performed.
            if r == 8 {
                std::mem::swap(&mut x2, &mut x3);
            }
        }
        // Output transformation.
        let z = &k[48..52];
        let y1 = mul(x1, z[0]);
        let y2 = add(x2, z[1]);
        let y3 = add(x3, z[2]);
        let y4 = mul(x4, z[3]);
        block[0..2].copy_from_slice(&y1.to_be_bytes());
        block[2..4].copy_from_slice(&y2.to_be_bytes());
        block[4..6].copy_from_slice(&y3.to_be_bytes());
        block[6..8].copy_from_slice(&y4.to_be_bytes());
    }

    pub fn encrypt(&self, block: &mut [u8]) {
        Self::crypt(&self.ek, block);
    }

    pub fn decrypt(&self, block: &mut [u8]) {
        Self::crypt(&self.dk, block);
    }
}

#[cfg(test)]
mod tests {
    use super::*;

    fn hex(s: &str) -> Vec<u8> {
        let s: Vec<u8> = s.bytes().filter(|b| !b.is_ascii_whitespace()).collect();
        s.chunks(2)
            .map(|p| u8::from_str_radix(std::str::from_utf8(p).unwrap(), 16).unwrap())
            .collect()
    }

    fn kat(key: &str, pt: &str, ct: &str) {
        let c = Idea::new(&hex(key)).unwrap();
        let mut b = hex(pt);
        c.encrypt(&mut b);
        assert_eq!(b, hex(ct), "encrypt key={key} pt={pt}");
        c.decrypt(&mut b);
        assert_eq!(b, hex(pt), "decrypt key={key} ct={ct}");
    }

    /// The classic worked example (Lai's thesis; HAC Table 7.12 lists its subkeys and round
    /// outputs): key = (1,2,3,4,5,6,7,8), plaintext = (0,1,2,3).
    #[test]
    fn classic_vector() {
        kat("00010002000300040005000600070008", "0000000100020003", "11FBED2B01986DE5");
    }

    /// HAC Table 7.12: encryption subkeys of the classic example, rounds 1, 2 and the output
    /// transformation; HAC Table 7.14: decryption subkeys of round 1 and the output
    /// transformation.
    #[test]
    fn classic_subkeys() {
        let c = Idea::new(&hex("00010002000300040005000600070008")).unwrap();
        assert_eq!(c.ek[0..6], [0x0001, 0x0002, 0x0003, 0x0004, 0x0005, 0x0006]);
        assert_eq!(c.ek[6..12], [0x0007, 0x0008, 0x0400, 0x0600, 0x0800, 0x0a00]);
        assert_eq!(c.ek[48..52], [0x0080, 0x00c0, 0x0100, 0x0140]);
        assert_eq!(c.dk[0..6], [0xfe01, 0xff40, 0xff00, 0x659a, 0xc000, 0xe001]);
        assert_eq!(c.dk[48..52], [0x0001, 0xfffe, 0xfffd, 0xc001]);
    }

    #[test]
    fn group_operations() {
        // 0 stands for 2^16 = -1 (mod 65537): (-1)*(-1) = 1, (-1)*1 = -1, (-1)*a = 65537 - a
        assert_eq!(mul(0, 0), 1);
        assert_eq!(mul(0, 1), 0);
        assert_eq!(mul(1, 0), 0);
        assert_eq!(mul(0, 2), 0xffff);
        assert_eq!(mul(0xffff, 0xffff), 4);
        assert_eq!(mul(0x8000, 2), 0);
        assert_eq!(mul_inv(0), 0);
        assert_eq!(mul_inv(1), 1);
        for a in [0u16, 1, 2, 3, 0x7fff, 0x8000, 0x8001, 0xfffe, 0xffff, 0x1234] {
            assert_eq!(mul(a, mul_inv(a)), 1, "a={a:#x}");
            assert_eq!(add(a, add_inv(a)), 0);
        }
    }

    /// NESSIE Idea-128-64.verified.test-vectors (also /repo/idea/tests/data/idea.blb; all 900
    /// vectors of that file were checked against this model at authoring time).
    #[test]
    fn nessie() {
        // Set 1 (one key bit set, zero plaintext), vectors 0, 1, 127
        kat("80000000000000000000000000000000", "0000000000000000", "b1f5f7f87901370f");
        kat("40000000000000000000000000000000", "0000000000000000", "b3927dffb6358626");
        kat("00000000000000000000000000000001", "0000000000000000", "c57adbde27bc26cf");
        // Set 2 (zero key, one plaintext bit set), vectors 0, 1, 2
        kat("00000000000000000000000000000000", "8000000000000000", "8001000180008000");
        kat("00000000000000000000000000000000", "4000000000000000", "c00180014000c000");
        kat("00000000000000000000000000000000", "2000000000000000", "6001c00120006000");
        // Set 3 (all bytes equal), vectors 63, 108, 192
        kat("3f3f3f3f3f3f3f3f3f3f3f3f3f3f3f3f", "3f3f3f3f3f3f3f3f", "d1c024254e589bce");
        kat("6c6c6c6c6c6c6c6c6c6c6c6c6c6c6c6c", "6c6c6c6c6c6c6c6c", "3181d1aad37fa973");
        kat("c0c0c0c0c0c0c0c0c0c0c0c0c0c0c0c0", "c0c0c0c0c0c0c0c0", "272aaa5c14bc3aa6");
        // Set 5 vector 63, set 6 vector 62, set 7 vector 255, set 8 vectors 0, 1
        // (published as cipher -> plain)
        kat("00000000000000010000000000000000", "5dff62ff39e86e59", "0000000000000000");
        kat("00000000000000000000000000000000", "01910059011cff32", "0000000000000002");
        kat("ffffffffffffffffffffffffffffffff", "28886d814399e782", "ffffffffffffffff");
        kat("000102030405060708090a0b0c0d0e0f", "db2d4a92aa68273f", "0011223344556677");
        kat("2bd6459f82c5b300952c49104881ff48", "f129a6601ef62a47", "ea024714ad5c4d84");
    }

    #[test]
    fn key_lengths() {
        for n in 0..=40 {
            assert_eq!(Idea::new(&vec![0u8; n]).is_some(), n == 16, "len {n}");
        }
    }
}
