//! Speck reference model, written from Beaulieu, Shors, Smith, Treatman-Clark, Weeks, Wingers,
//! "The SIMON and SPECK Families of Lightweight Block Ciphers" (ePrint 2013/404), section 4.
//!
//! Speck2n/mn: word size n, m key words, T rounds.
//!   round:        x <- (S^-alpha(x) + y) xor k ;  y <- S^beta(y) xor x
//!   key schedule: key = (l[m-2], ..., l[0], k[0])
//!                 l[i+m-1] = (k[i] + S^-alpha(l[i])) xor i
//!                 k[i+1]   = S^beta(k[i]) xor l[i+m-1]
//!   alpha = 7, beta = 2 for n = 16; alpha = 8, beta = 3 otherwise.
//!
//! Byte conventions (DESIGN.md Appendix A): a block is the two words (x, y) as printed in the
//! paper's Appendix C, each serialised big-endian, x first. The key bytes are the key words in
//! the paper's listing order l[m-2], ..., l[0], k[0], each big-endian.
//!
//! Run-time generic: words live in a `u128` reduced by a mask.

pub struct Speck {
    n: u32,
    alpha: u32,
    beta: u32,
    mask: u128,
    /// round keys k[0..T-1]
    k: Vec<u128>,
}

/// (block bits, key bits) -> (m, T), table 4.1 of the paper.
fn params(block_bits: u32, key_bits: u32) -> Option<(usize, usize)> {
    Some(match (block_bits, key_bits) {
        (32, 64) => (4, 22),
        (48, 72) => (3, 22),
        (48, 96) => (4, 23),
        (64, 96) => (3, 26),
        (64, 128) => (4, 27),
        (96, 96) => (2, 28),
        (96, 144) => (3, 29),
        (128, 128) => (2, 32),
        (128, 192) => (3, 33),
        (128, 256) => (4, 34),
        _ => return None,
    })
}

impl Speck {
    pub fn new(block_bits: u32, key_bits: u32, key: &[u8]) -> Option<Self> {
        let (m, t) = params(block_bits, key_bits)?;
        if key.len() * 8 != key_bits as usize {
            return None;
        }
        let n = block_bits / 2;
        let (alpha, beta) = if n == 16 { (7, 2) } else { (8, 3) };
        let mask = (1u128 << n) - 1;
        let mut me = Speck { n, alpha, beta, mask, k: Vec::new() };
        let wb = (n / 8) as usize;
        // key words in listing order: index 0 of `words` is l[m-2], last is k[0]
        let words: Vec<u128> = key.chunks(wb).map(be).collect();
        assert_eq!(words.len(), m);
        let mut k = vec![0u128; t];
        let mut l = vec![0u128; t + m - 2];
        k[0] = words[m - 1];
        for i in 0..m - 1 {
            l[i] = words[m - 2 - i];
        }
        for i in 0..t - 1 {
            l[i + m - 1] = (k[i].wrapping_add(me.rotr(l[i], alpha)) & mask) ^ (i as u128);
            k[i + 1] = me.rotl(k[i], beta) ^ l[i + m - 1];
        }
        me.k = k;
        Some(me)
    }

    /// Block length in bytes.
    pub fn block_len(&self) -> usize {
        (2 * self.n / 8) as usize
    }

    fn rotl(&self, x: u128, r: u32) -> u128 {
        ((x << r) | (x >> (self.n - r))) & self.mask
    }
    fn rotr(&self, x: u128, r: u32) -> u128 {
        ((x >> r) | (x << (self.n - r))) & self.mask
    }

    pub fn encrypt(&self, block: &mut [u8]) {
        assert_eq!(block.len(), self.block_len());
        let wb = (self.n / 8) as usize;
        let mut x = be(&block[..wb]);
        let mut y = be(&block[wb..]);
        for &k in self.k.iter() {
            x = (self.rotr(x, self.alpha).wrapping_add(y) & self.mask) ^ k;
            y = self.rotl(y, self.beta) ^ x;
        }
        put_be(x, &mut block[..wb]);
        put_be(y, &mut block[wb..]);
    }

    pub fn decrypt(&self, block: &mut [u8]) {
        assert_eq!(block.len(), self.block_len());
        let wb = (self.n / 8) as usize;
        let mut x = be(&block[..wb]);
        let mut y = be(&block[wb..]);
        for &k in self.k.iter().rev() {
            y = self.rotr(y ^ x, self.beta);
            x = self.rotl((x ^ k).wrapping_sub(y) & self.mask, self.alpha);
        }
        put_be(x, &mut block[..wb]);
        put_be(y, &mut block[wb..]);
    }
}

fn be(bytes: &[u8]) -> u128 {
    bytes.iter().fold(0u128, |acc, &b| (acc << 8) | b as u128)
}
fn put_be(x: u128, bytes: &mut [u8]) {
    let n = bytes.len();
    for (i, b) in bytes.iter_mut().enumerate() {
        *b = (x >> (8 * (n - 1 - i))) as u8;
    }
}

#[cfg(test)]
mod tests {
    use super::*;

    fn hex(s: &str) -> Vec<u8> {
        let s: String = s.chars().filter(|c| !c.is_whitespace()).collect();
        (0..s.len() / 2)
            .map(|i| u8::from_str_radix(&s[2 * i..2 * i + 2], 16).unwrap())
            .collect()
    }

    /// Appendix C of the Simon and Speck paper (ePrint 2013/404), all ten variants, written
    /// exactly as printed there (Key / Plaintext / Ciphertext lines, spaces kept).
    #[test]
    fn paper_appendix_c() {
        let v: [(u32, u32, &str, &str, &str); 10] = [
            (32, 64, "1918 1110 0908 0100", "6574 694c", "a868 42f2"),
            (48, 72, "121110 0a0908 020100", "20796c 6c6172", "c049a5 385adc"),
            (48, 96, "1a1918 121110 0a0908 020100", "6d2073 696874", "735e10 b6445d"),
            (64, 96, "13121110 0b0a0908 03020100", "74614620 736e6165", "9f7952ec 4175946c"),
            (
                64,
                128,
                "1b1a1918 13121110 0b0a0908 03020100",
                "3b726574 7475432d",
                "8c6fa548 454e028b",
            ),
            (
                96,
                96,
                "0d0c0b0a0908 050403020100",
                "65776f68202c 656761737520",
                "9e4d09ab7178 62bdde8f79aa",
            ),
            (
                96,
                144,
                "151413121110 0d0c0b0a0908 050403020100",
                "656d6974206e 69202c726576",
                "2bf31072228a 7ae440252ee6",
            ),
            (
                128,
                128,
                "0f0e0d0c0b0a0908 0706050403020100",
                "6c61766975716520 7469206564616d20",
                "a65d985179783265 7860fedf5c570d18",
            ),
            (
                128,
                192,
                "1716151413121110 0f0e0d0c0b0a0908 0706050403020100",
                "7261482066656968 43206f7420746e65",
                "1be4cf3a13135566 f9bc185de03c1886",
            ),
            (
                128,
                256,
                "1f1e1d1c1b1a1918 1716151413121110 0f0e0d0c0b0a0908 0706050403020100",
                "65736f6874206e49 202e72656e6f6f70",
                "4109010405c0f53e 4eeeb48d9c188f43",
            ),
        ];
        for (bb, kb, key, pt, ct) in v.iter() {
            let c = Speck::new(*bb, *kb, &hex(key)).unwrap();
            let mut blk = hex(pt);
            c.encrypt(&mut blk);
            assert_eq!(blk, hex(ct), "Speck{}/{}", bb, kb);
            c.decrypt(&mut blk);
            assert_eq!(blk, hex(pt));
        }
    }

    #[test]
    fn rejects_bad_parameters() {
        assert!(Speck::new(32, 128, &[0; 16]).is_none());
        assert!(Speck::new(64, 128, &[0; 12]).is_none());
        assert!(Speck::new(128, 128, &[0; 17]).is_none());
    }
}
