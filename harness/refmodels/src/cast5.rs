//! Reference model of CAST-128 ("CAST5"), written from RFC 2144.
//!
//! * Block: 8 bytes = (L0, R0), two big-endian 32-bit words (RFC 2144 section 2.1: "MSB
//!   first"). Ciphertext = (R16, L16) (or (R12, L12) for short keys).
//! * Key: 5..=16 bytes (40..128 bits in 8-bit steps, RFC 2144 section 2.5); a key shorter than
//!   16 bytes is padded with zero bytes on the right; keys of at most 80 bits (10 bytes) use 12
//!   rounds, longer keys the full 16.
//! * Key schedule: the x0..xF / z0..zF equations of RFC 2144 section 2.4, on byte arrays.
//!   Km_i = K_i, Kr_i = 5 least significant bits of K_{16+i}.
//! * S-boxes: `super::cast_sboxes` (see that file for provenance and how they are pinned).
//!
//! Everything here follows the RFC's notation; nothing is precomputed or fused.

use super::cast_sboxes::{S1, S2, S3, S4, S5, S6, S7, S8};

/// Test-only bookkeeping of which S-box entries were read (used to show that the test
/// vectors / differential comparisons exercise every one of the 8 x 256 table entries).
#[cfg(test)]
pub(crate) mod trace {
    use std::cell::RefCell;
    thread_local! {
        pub static TOUCHED: RefCell<Vec<bool>> = RefCell::new(vec![false; 8 * 256]);
    }
    pub fn mark(n: usize, b: u8) {
        TOUCHED.with(|t| t.borrow_mut()[(n - 1) * 256 + b as usize] = true);
    }
    pub fn reset() {
        TOUCHED.with(|t| t.borrow_mut().iter_mut().for_each(|x| *x = false));
    }
    /// Number of touched entries per S-box S1..S8 (this thread).
    pub fn counts() -> [usize; 8] {
        TOUCHED.with(|t| {
            let t = t.borrow();
            let mut c = [0usize; 8];
            for n in 0..8 {
                c[n] = t[n * 256..(n + 1) * 256].iter().filter(|&&x| x).count();
            }
            c
        })
    }
}

/// S-box lookup "Sn[b]", n = 1..8.
fn s(n: usize, b: u8) -> u32 {
    #[cfg(test)]
    trace::mark(n, b);
    let t: &[u32; 256] = match n {
        1 => &S1,
        2 => &S2,
        3 => &S3,
        4 => &S4,
        5 => &S5,
        6 => &S6,
        7 => &S7,
        8 => &S8,
        _ => unreachable!(),
    };
    t[b as usize]
}

/// The 32-bit word "a_i a_{i+1} a_{i+2} a_{i+3}" of a 16-byte array (a_i most significant).
fn word(a: &[u8; 16], i: usize) -> u32 {
    u32::from_be_bytes([a[i], a[i + 1], a[i + 2], a[i + 3]])
}

/// Assign the 32-bit word `w` to "a_i a_{i+1} a_{i+2} a_{i+3}".
fn set_word(a: &mut [u8; 16], i: usize, w: u32) {
    a[i..i + 4].copy_from_slice(&w.to_be_bytes());
}

/// Round function, RFC 2144 section 2.2. `ty` = 1, 2 or 3.
/// I = Ia Ib Ic Id, Ia most significant byte.
fn f(ty: u8, d: u32, km: u32, kr: u32) -> u32 {
    let i = match ty {
        1 => km.wrapping_add(d),
        2 => km ^ d,
        3 => km.wrapping_sub(d),
        _ => unreachable!(),
    }
    .rotate_left(kr);
    let [ia, ib, ic, id] = i.to_be_bytes();
    match ty {
        1 => (s(1, ia) ^ s(2, ib)).wrapping_sub(s(3, ic)).wrapping_add(s(4, id)),
        2 => (s(1, ia).wrapping_sub(s(2, ib))).wrapping_add(s(3, ic)) ^ s(4, id),
        3 => (s(1, ia).wrapping_add(s(2, ib)) ^ s(3, ic)).wrapping_sub(s(4, id)),
        _ => unreachable!(),
    }
}

/// Round i (1-based) uses f of type 1 for i = 1,4,7,10,13,16, type 2 for i = 2,5,8,11,14 and
/// type 3 for i = 3,6,9,12,15.
fn round_type(i: usize) -> u8 {
    match i % 3 {
        1 => 1,
        2 => 2,
        _ => 3,
    }
}

pub struct Cast5 {
    /// Masking subkeys Km_1..Km_16 at indices 1..=16 (index 0 unused).
    km: [u32; 17],
    /// Rotation subkeys Kr_1..Kr_16 (5 bits each) at indices 1..=16.
    kr: [u32; 17],
    /// 12 or 16.
    rounds: usize,
}

impl Cast5 {
    pub const BLOCK: usize = 8;

    pub fn new(key: &[u8]) -> Option<Self> {
        if key.len() < 5 || key.len() > 16 {
            return None;
        }
        let rounds = if key.len() * 8 <= 80 { 12 } else { 16 };
        // "the key is padded with zero bytes (in the rightmost, or least significant,
        // positions) out to 128 bits"
        let mut x = [0u8; 16];
        x[..key.len()].copy_from_slice(key);
        let mut z = [0u8; 16];

        // K1..K32 at indices 1..=32.
        let mut k = [0u32; 33];

        // RFC 2144 section 2.4. The list of equations for K17..K32 is, line for line, the list
        // for K1..K16 again (continuing from the x left by the first pass).
        for half in 0..2 {
            let o = 16 * half;

            let w = word(&x, 0x0) ^ s(5, x[0xD]) ^ s(6, x[0xF]) ^ s(7, x[0xC]) ^ s(8, x[0xE]) ^ s(7, x[0x8]);
            set_word(&mut z, 0x0, w);
            let w = word(&x, 0x8) ^ s(5, z[0x0]) ^ s(6, z[0x2]) ^ s(7, z[0x1]) ^ s(8, z[0x3]) ^ s(8, x[0xA]);
            set_word(&mut z, 0x4, w);
            let w = word(&x, 0xC) ^ s(5, z[0x7]) ^ s(6, z[0x6]) ^ s(7, z[0x5]) ^ s(8, z[0x4]) ^ s(5, x[0x9]);
            set_word(&mut z, 0x8, w);
            let w = word(&x, 0x4) ^ s(5, z[0xA]) ^ s(6, z[0x9]) ^ s(7, z[0xB]) ^ s(8, z[0x8]) ^ s(6, x[0xB]);
            set_word(&mut z, 0xC, w);
            k[o + 1] = s(5, z[0x8]) ^ s(6, z[0x9]) ^ s(7, z[0x7]) ^ s(8, z[0x6]) ^ s(5, z[0x2]);
            k[o + 2] = s(5, z[0xA]) ^ s(6, z[0xB]) ^ s(7, z[0x5]) ^ s(8, z[0x4]) ^ s(6, z[0x6]);
            k[o + 3] = s(5, z[0xC]) ^ s(6, z[0xD]) ^ s(7, z[0x3]) ^ s(8, z[0x2]) ^ s(7, z[0x9]);
            k[o + 4] = s(5, z[0xE]) ^ s(6, z[0xF]) ^ s(7, z[0x1]) ^ s(8, z[0x0]) ^ s(8, z[0xC]);

            let w = word(&z, 0x8) ^ s(5, z[0x5]) ^ s(6, z[0x7]) ^ s(7, z[0x4]) ^ s(8, z[0x6]) ^ s(7, z[0x0]);
            set_word(&mut x, 0x0, w);
            let w = word(&z, 0x0) ^ s(5, x[0x0]) ^ s(6, x[0x2]) ^ s(7, x[0x1]) ^ s(8, x[0x3]) ^ s(8, z[0x2]);
            set_word(&mut x, 0x4, w);
            let w = word(&z, 0x4) ^ s(5, x[0x7]) ^ s(6, x[0x6]) ^ s(7, x[0x5]) ^ s(8, x[0x4]) ^ s(5, z[0x1]);
            set_word(&mut x, 0x8, w);
            let w = word(&z, 0xC) ^ s(5, x[0xA]) ^ s(6, x[0x9]) ^ s(7, x[0xB]) ^ s(8, x[0x8]) ^ s(6, z[0x3]);
            set_word(&mut x, 0xC, w);
            k[o + 5] = s(5, x[0x3]) ^ s(6, x[0x2]) ^ s(7, x[0xC]) ^ s(8, x[0xD]) ^ s(5, x[0x8]);
            k[o + 6] = s(5, x[0x1]) ^ s(6, x[0x0]) ^ s(7, x[0xE]) ^ s(8, x[0xF]) ^ s(6, x[0xD]);
            k[o + 7] = s(5, x[0x7]) ^ s(6, x[0x6]) ^ s(7, x[0x8]) ^ s(8, x[0x9]) ^ s(7, x[0x3]);
            k[o + 8] = s(5, x[0x5]) ^ s(6, x[0x4]) ^ s(7, x[0xA]) ^ s(8, x[0xB]) ^ s(8, x[0x7]);

            let w = word(&x, 0x0) ^ s(5, x[0xD]) ^ s(6, x[0xF]) ^ s(7, x[0xC]) ^ s(8, x[0xE]) ^ s(7, x[0x8]);
            set_word(&mut z, 0x0, w);
            let w = word(&x, 0x8) ^ s(5, z[0x0]) ^ s(6, z[0x2]) ^ s(7, z[0x1]) ^ s(8, z[0x3]) ^ s(8, x[0xA]);
            set_word(&mut z, 0x4, w);
            let w = word(&x, 0xC) ^ s(5, z[0x7]) ^ s(6, z[0x6]) ^ s(7, z[0x5]) ^ s(8, z[0x4]) ^ s(5, x[0x9]);
            set_word(&mut z, 0x8, w);
            let w = word(&x, 0x4) ^ s(5, z[0xA]) ^ s(6, z[0x9]) ^ s(7, z[0xB]) ^ s(8, z[0x8]) ^ s(6, x[0xB]);
            set_word(&mut z, 0xC, w);
            k[o + 9] = s(5, z[0x3]) ^ s(6, z[0x2]) ^ s(7, z[0xC]) ^ s(8, z[0xD]) ^ s(5, z[0x9]);
            k[o + 10] = s(5, z[0x1]) ^ s(6, z[0x0]) ^ s(7, z[0xE]) ^ s(8, z[0xF]) ^ s(6, z[0xC]);
            k[o + 11] = s(5, z[0x7]) ^ s(6, z[0x6]) ^ s(7, z[0x8]) ^ s(8, z[0x9]) ^ s(7, z[0x2]);
            k[o + 12] = s(5, z[0x5]) ^ s(6, z[0x4]) ^ s(7, z[0xA]) ^ s(8, z[0xB]) ^ s(8, z[0x6]);

            let w = word(&z, 0x8) ^ s(5, z[0x5]) ^ s(6, z[0x7]) ^ s(7, z[0x4]) ^ s(8, z[0x6]) ^ s(7, z[0x0]);
            set_word(&mut x, 0x0, w);
            let w = word(&z, 0x0) ^ s(5, x[0x0]) ^ s(6, x[0x2]) ^ s(7, x[0x1]) ^ s(8, x[0x3]) ^ s(8, z[0x2]);
            set_word(&mut x, 0x4, w);
            let w = word(&z, 0x4) ^ s(5, x[0x7]) ^ s(6, x[0x6]) ^ s(7, x[0x5]) ^ s(8, x[0x4]) ^ s(5, z[0x1]);
            set_word(&mut x, 0x8, w);
            let w = word(&z, 0xC) ^ s(5, x[0xA]) ^ s(6, x[0x9]) ^ s(7, x[0xB]) ^ s(8, x[0x8]) ^ s(6, z[0x3]);
            set_word(&mut x, 0xC, w);
            k[o + 13] = s(5, x[0x8]) ^ s(6, x[0x9]) ^ s(7, x[0x7]) ^ s(8, x[0x6]) ^ s(5, x[0x3]);
            k[o + 14] = s(5, x[0xA]) ^ s(6, x[0xB]) ^ s(7, x[0x5]) ^ s(8, x[0x4]) ^ s(6, x[0x7]);
            k[o + 15] = s(5, x[0xC]) ^ s(6, x[0xD]) ^ s(7, x[0x3]) ^ s(8, x[0x2]) ^ s(7, x[0x8]);
            k[o + 16] = s(5, x[0xE]) ^ s(6, x[0xF]) ^ s(7, x[0x1]) ^ s(8, x[0x0]) ^ s(8, x[0xD]);
        }

        // Section 2.4.1/2.4.2: Km_i = K_i; Kr_i = K_{16+i}, only the 5 LSBs are used.
        let mut km = [0u32; 17];
        let mut kr = [0u32; 17];
        for i in 1..=16 {
            km[i] = k[i];
            kr[i] = k[16 + i] & 0x1f;
        }
        Some(Cast5 { km, kr, rounds })
    }

    pub fn encrypt(&self, block: &mut [u8]) {
        assert_eq!(block.len(), Self::BLOCK);
        let mut l = u32::from_be_bytes([block[0], block[1], block[2], block[3]]);
        let mut r = u32::from_be_bytes([block[4], block[5], block[6], block[7]]);
        for i in 1..=self.rounds {
            // L_i = R_{i-1}; R_i = L_{i-1} ^ f(R_{i-1}, Km_i, Kr_i)
            let (nl, nr) = (r, l ^ f(round_type(i), r, self.km[i], self.kr[i]));
            l = nl;
            r = nr;
        }
        // c = (R_n, L_n)
        block[..4].copy_from_slice(&r.to_be_bytes());
        block[4..].copy_from_slice(&l.to_be_bytes());
    }

    /// "identical to the encryption algorithm [...] except that the rounds (and therefore the
    /// subkey pairs) are used in reverse order".
    pub fn decrypt(&self, block: &mut [u8]) {
        assert_eq!(block.len(), Self::BLOCK);
        let mut l = u32::from_be_bytes([block[0], block[1], block[2], block[3]]);
        let mut r = u32::from_be_bytes([block[4], block[5], block[6], block[7]]);
        for i in (1..=self.rounds).rev() {
            let (nl, nr) = (r, l ^ f(round_type(i), r, self.km[i], self.kr[i]));
            l = nl;
            r = nr;
        }
        block[..4].copy_from_slice(&r.to_be_bytes());
        block[4..].copy_from_slice(&l.to_be_bytes());
    }
}

#[cfg(test)]
mod tests {
    use super::*;

    fn hex(s: &str) -> Vec<u8> {
        let s: Vec<u8> = s.bytes().filter(|b| !b.is_ascii_whitespace()).collect();
        s.chunks(2)
            .map(|p| u8::from_str_radix(std::str::from_utf8(p).unwrap(), 16).unwrap())
            .collect()
    }

    fn kat(key: &str, pt: &str, ct: &str) {
        let c = Cast5::new(&hex(key)).unwrap();
        let mut b = hex(pt);
        c.encrypt(&mut b);
        assert_eq!(b, hex(ct), "encrypt key={key}");
        c.decrypt(&mut b);
        assert_eq!(b, hex(pt), "decrypt key={key}");
    }

    /// RFC 2144 Appendix B.1 "Single Plaintext-Key-Ciphertext Sets".
    #[test]
    fn rfc2144_b1() {
        kat("0123456712345678234567893456789A", "0123456789ABCDEF", "238B4FE5847E44B2");
        kat("01234567123456782345", "0123456789ABCDEF", "EB6A711A2C02271B");
        kat("0123456712", "0123456789ABCDEF", "7AC816D16E9B302E");
    }

    /// NESSIE Cast-128-128-64.verified.test-vectors (also /repo/cast5/tests/data/cast5.blb; all
    /// 900 vectors of that file were checked against this model at authoring time).
    #[test]
    fn nessie() {
        // Set 1 (one key bit set, zero plaintext), vectors 0, 1, 127
        kat("80000000000000000000000000000000", "0000000000000000", "ef854de5d7d1895b");
        kat("40000000000000000000000000000000", "0000000000000000", "3e50834a3afdd951");
        kat("00000000000000000000000000000001", "0000000000000000", "c1e8328dabe3ee01");
        // Set 2 (zero key, one plaintext bit set), vectors 0, 1
        kat("00000000000000000000000000000000", "8000000000000000", "000d844afce35696");
        kat("00000000000000000000000000000000", "4000000000000000", "501c44f14e59abb8");
        // Set 3 (all bytes equal), vectors 63, 108, 192
        kat("3f3f3f3f3f3f3f3f3f3f3f3f3f3f3f3f", "3f3f3f3f3f3f3f3f", "36d344b3027bc561");
        kat("6c6c6c6c6c6c6c6c6c6c6c6c6c6c6c6c", "6c6c6c6c6c6c6c6c", "c0af0e4cb0e4b4a4");
        kat("c0c0c0c0c0c0c0c0c0c0c0c0c0c0c0c0", "c0c0c0c0c0c0c0c0", "7c3eabda658c1be9");
        // Set 5 vector 63, set 7 vector 255, set 8 vectors 0, 1 (published as cipher -> plain)
        kat("00000000000000010000000000000000", "d9a19c45134689e6", "0000000000000000");
        kat("ffffffffffffffffffffffffffffffff", "f7e0c7f49efe9734", "ffffffffffffffff");
        kat("000102030405060708090a0b0c0d0e0f", "e44b90e3664f87a3", "0011223344556677");
        kat("2bd6459f82c5b300952c49104881ff48", "6347735b3c61b2f6", "ea024714ad5c4d84");
    }

    #[test]
    fn key_lengths() {
        for n in 0..=40 {
            assert_eq!(Cast5::new(&vec![0u8; n]).is_some(), (5..=16).contains(&n), "len {n}");
        }
        // zero padding: a short key equals the same key with explicit zero bytes only when the
        // round count agrees (11..=16 bytes -> 16 rounds).
        let k = hex("0123456712345678234567");
        let mut kp = k.clone();
        kp.resize(16, 0);
        let (a, b) = (Cast5::new(&k).unwrap(), Cast5::new(&kp).unwrap());
        let mut x = hex("0011223344556677");
        let mut y = x.clone();
        a.encrypt(&mut x);
        b.encrypt(&mut y);
        assert_eq!(x, y);
        // 10-byte key: 12 rounds, so NOT the same as the padded 16-byte key.
        let k = hex("01234567123456782345");
        let mut kp = k.clone();
        kp.resize(16, 0);
        let (a, b) = (Cast5::new(&k).unwrap(), Cast5::new(&kp).unwrap());
        assert_eq!((a.rounds, b.rounds), (12, 16));
        assert_eq!(a.km, b.km);
        assert_eq!(a.kr, b.kr);
    }

    /// RFC 2144 Appendix B.2 "Full Maintenance Test", 1,000,000 iterations. Exercises all
    /// 8 x 256 S-box entries (asserted). About 3 s in an optimised build; in an unoptimised
    /// build it is slow, hence `#[ignore]` there.
    #[test]
    #[cfg_attr(debug_assertions, ignore)]
    fn rfc2144_b2_full_maintenance() {
        maintenance(1_000_000, Some(("EEA9D0A249FD3BA6B3436FB89D6DCA92", "B2C95EB00C31AD7180AC05B8E83D696E")));
    }

    /// The same loop cut to 2000 iterations, only to check S-box coverage in every build.
    #[test]
    fn maintenance_short_touches_every_sbox_entry() {
        maintenance(2000, None);
    }

    fn maintenance(count: usize, expect: Option<(&str, &str)>) {
        trace::reset();
        let mut a: [u8; 16] = hex("0123456712345678234567893456789A").try_into().unwrap();
        let mut b = a;
        for _ in 0..count {
            // aL = encrypt(aL, b); aR = encrypt(aR, b)
            let c = Cast5::new(&b).unwrap();
            c.encrypt(&mut a[..8]);
            c.encrypt(&mut a[8..]);
            // bL = encrypt(bL, a); bR = encrypt(bR, a)
            let c = Cast5::new(&a).unwrap();
            c.encrypt(&mut b[..8]);
            c.encrypt(&mut b[8..]);
        }
        if let Some((va, vb)) = expect {
            assert_eq!(a.to_vec(), hex(va));
            assert_eq!(b.to_vec(), hex(vb));
        }
        assert_eq!(trace::counts(), [256; 8], "S-box entries touched per box");
    }
}
