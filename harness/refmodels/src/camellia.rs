//! Reference model of Camellia (RFC 3713), a literal transcription of the RFC's pseudo-code:
//! 128-bit quantities are `u128` (most significant bit = first bit of the byte string),
//! F / FL / FLINV work on 64-bit values, the key schedule derives KA and KB with SIGMA1..6
//! and takes 64-bit halves of 128-bit rotations of KL, KR, KA, KB.
//!
//! SBOX1 is transcribed in the RFC's layout (16 rows of 16, decimal values as printed);
//! SBOX2, SBOX3, SBOX4 are computed from SBOX1 by the RFC's rules. SIGMA1..6 are computed
//! from their defining rule (hexadecimal digits 2..17 of the fractional part of the square
//! roots of the first six primes) and checked against the RFC's printed values in the tests.

const MASK64: u128 = 0xffff_ffff_ffff_ffff;

/// SBOX1 as printed in RFC 3713 section 2.4.1 (decimal, row-major: SBOX1[16*row + column]).
const SBOX1: [u8; 256] = [
    112, 130,  44, 236, 179,  39, 192, 229, 228, 133,  87,  53, 234,  12, 174,  65,
     35, 239, 107, 147,  69,  25, 165,  33, 237,  14,  79,  78,  29, 101, 146, 189,
    134, 184, 175, 143, 124, 235,  31, 206,  62,  48, 220,  95,  94, 197,  11,  26,
    166, 225,  57, 202, 213,  71,  93,  61, 217,   1,  90, 214,  81,  86, 108,  77,
    139,  13, 154, 102, 251, 204, 176,  45, 116,  18,  43,  32, 240, 177, 132, 153,
    223,  76, 203, 194,  52, 126, 118,   5, 109, 183, 169,  49, 209,  23,   4, 215,
     20,  88,  58,  97, 222,  27,  17,  28,  50,  15, 156,  22,  83,  24, 242,  34,
    254,  68, 207, 178, 195, 181, 122, 145,  36,   8, 232, 168,  96, 252, 105,  80,
    170, 208, 160, 125, 161, 137,  98, 151,  84,  91,  30, 149, 224, 255, 100, 210,
     16, 196,   0,  72, 163, 247, 117, 219, 138,   3, 230, 218,   9,  63, 221, 148,
    135,  92, 131,   2, 205,  74, 144,  51, 115, 103, 246, 243, 157, 127, 191, 226,
     82, 155, 216,  38, 200,  55, 198,  59, 129, 150, 111,  75,  19, 190,  99,  46,
    233, 121, 167, 140, 159, 110, 188, 142,  41, 245, 249, 182,  47, 253, 180,  89,
    120, 152,   6, 106, 231,  70, 113, 186, 212,  37, 171,  66, 136, 162, 141, 250,
    114,   7, 185,  85, 248, 238, 172,  10,  54,  73,  42, 104,  60,  56, 241, 164,
     64,  40, 211, 123, 187, 201,  67, 193,  21, 227, 173, 244, 119, 199, 128, 158,
];

fn sbox1(x: u8) -> u8 {
    SBOX1[x as usize]
}
/// SBOX2[x] = SBOX1[x] <<< 1
fn sbox2(x: u8) -> u8 {
    SBOX1[x as usize].rotate_left(1)
}
/// SBOX3[x] = SBOX1[x] <<< 7
fn sbox3(x: u8) -> u8 {
    SBOX1[x as usize].rotate_left(7)
}
/// SBOX4[x] = SBOX1[x <<< 1]
fn sbox4(x: u8) -> u8 {
    SBOX1[x.rotate_left(1) as usize]
}

/// floor(sqrt(p) * 2^68) mod 2^64: hexadecimal places 2..=17 of the fractional part of
/// sqrt(p), for a small prime p (the 17 places are 68 bits; dropping the first place leaves
/// 64 bits).
fn sqrt_fraction(p: u64) -> u64 {
    // Largest r < 2^71 with r^2 <= p * 2^136, found bit by bit. r^2 needs up to 142 bits, so
    // squares are kept as (high, low) pairs of u128 with 2^128 weight on `high`.
    fn square(r: u128) -> (u128, u128) {
        // r = a * 2^64 + b with a < 2^7
        let a = r >> 64;
        let b = r & 0xffff_ffff_ffff_ffff;
        let bb = b * b; // < 2^128
        let ab2 = 2 * a * b; // < 2^72, weight 2^64
        let aa = a * a; // weight 2^128
        let (low, carry) = bb.overflowing_add(ab2 << 64);
        let high = aa + (ab2 >> 64) + carry as u128;
        (high, low)
    }
    let target = ((p as u128) << 8, 0u128); // p * 2^136 = (p * 2^8) * 2^128
    let mut r: u128 = 0;
    for bit in (0..71).rev() {
        let cand = r | (1u128 << bit);
        if square(cand) <= target {
            r = cand;
        }
    }
    (r & 0xffff_ffff_ffff_ffff) as u64
}

/// SIGMA1 .. SIGMA6 (index 0..5).
fn sigma() -> [u64; 6] {
    let primes = [2u64, 3, 5, 7, 11, 13];
    let mut s = [0u64; 6];
    for i in 0..6 {
        s[i] = sqrt_fraction(primes[i]);
    }
    s
}

/// F-function (RFC 3713 section 2.4.1).
fn f(f_in: u64, ke: u64) -> u64 {
    let x = f_in ^ ke;
    let t1 = (x >> 56) as u8;
    let t2 = (x >> 48) as u8;
    let t3 = (x >> 40) as u8;
    let t4 = (x >> 32) as u8;
    let t5 = (x >> 24) as u8;
    let t6 = (x >> 16) as u8;
    let t7 = (x >> 8) as u8;
    let t8 = x as u8;
    let t1 = sbox1(t1);
    let t2 = sbox2(t2);
    let t3 = sbox3(t3);
    let t4 = sbox4(t4);
    let t5 = sbox2(t5);
    let t6 = sbox3(t6);
    let t7 = sbox4(t7);
    let t8 = sbox1(t8);
    let y1 = t1 ^ t3 ^ t4 ^ t6 ^ t7 ^ t8;
    let y2 = t1 ^ t2 ^ t4 ^ t5 ^ t7 ^ t8;
    let y3 = t1 ^ t2 ^ t3 ^ t5 ^ t6 ^ t8;
    let y4 = t2 ^ t3 ^ t4 ^ t5 ^ t6 ^ t7;
    let y5 = t1 ^ t2 ^ t6 ^ t7 ^ t8;
    let y6 = t2 ^ t3 ^ t5 ^ t7 ^ t8;
    let y7 = t3 ^ t4 ^ t5 ^ t6 ^ t8;
    let y8 = t1 ^ t4 ^ t5 ^ t6 ^ t7;
    ((y1 as u64) << 56)
        | ((y2 as u64) << 48)
        | ((y3 as u64) << 40)
        | ((y4 as u64) << 32)
        | ((y5 as u64) << 24)
        | ((y6 as u64) << 16)
        | ((y7 as u64) << 8)
        | (y8 as u64)
}

/// FL-function.
fn fl(fl_in: u64, ke: u64) -> u64 {
    let mut x1 = (fl_in >> 32) as u32;
    let mut x2 = fl_in as u32;
    let k1 = (ke >> 32) as u32;
    let k2 = ke as u32;
    x2 ^= (x1 & k1).rotate_left(1);
    x1 ^= x2 | k2;
    ((x1 as u64) << 32) | (x2 as u64)
}

/// FLINV-function.
fn flinv(flinv_in: u64, ke: u64) -> u64 {
    let mut y1 = (flinv_in >> 32) as u32;
    let mut y2 = flinv_in as u32;
    let k1 = (ke >> 32) as u32;
    let k2 = ke as u32;
    y1 ^= y2 | k2;
    y2 ^= (y1 & k1).rotate_left(1);
    ((y1 as u64) << 32) | (y2 as u64)
}

fn hi(x: u128) -> u64 {
    (x >> 64) as u64
}
fn lo(x: u128) -> u64 {
    (x & MASK64) as u64
}

pub struct Camellia {
    /// kw1..kw4 at index 1..=4 (index 0 unused, to keep the RFC's numbering).
    kw: [u64; 5],
    /// k1..k18 or k1..k24 at index 1..
    k: [u64; 25],
    /// ke1..ke4 or ke1..ke6 at index 1..
    ke: [u64; 7],
    /// 18 (128-bit keys) or 24 (192/256-bit keys).
    rounds: usize,
}

impl Camellia {
    pub const BLOCK: usize = 16;

    pub fn new(key: &[u8]) -> Option<Self> {
        // KL, KR (RFC 3713 section 2.2)
        let be128 = |b: &[u8]| -> u128 {
            let mut a = [0u8; 16];
            a.copy_from_slice(b);
            u128::from_be_bytes(a)
        };
        let (kl, kr): (u128, u128) = match key.len() {
            16 => (be128(key), 0),
            24 => {
                let mut a = [0u8; 8];
                a.copy_from_slice(&key[16..24]);
                let right = u64::from_be_bytes(a);
                (be128(&key[0..16]), ((right as u128) << 64) | ((!right) as u128))
            }
            32 => (be128(&key[0..16]), be128(&key[16..32])),
            _ => return None,
        };
        let sg = sigma();
        let (sigma1, sigma2, sigma3, sigma4, sigma5, sigma6) = (sg[0], sg[1], sg[2], sg[3], sg[4], sg[5]);

        let mut d1 = hi(kl ^ kr);
        let mut d2 = lo(kl ^ kr);
        d2 ^= f(d1, sigma1);
        d1 ^= f(d2, sigma2);
        d1 ^= hi(kl);
        d2 ^= lo(kl);
        d2 ^= f(d1, sigma3);
        d1 ^= f(d2, sigma4);
        let ka: u128 = ((d1 as u128) << 64) | (d2 as u128);
        d1 = hi(ka ^ kr);
        d2 = lo(ka ^ kr);
        d2 ^= f(d1, sigma5);
        d1 ^= f(d2, sigma6);
        let kb: u128 = ((d1 as u128) << 64) | (d2 as u128);

        let mut kw = [0u64; 5];
        let mut k = [0u64; 25];
        let mut ke = [0u64; 7];
        let rounds;
        if key.len() == 16 {
            rounds = 18;
            kw[1] = hi(kl.rotate_left(0));
            kw[2] = lo(kl.rotate_left(0));
            k[1] = hi(ka.rotate_left(0));
            k[2] = lo(ka.rotate_left(0));
            k[3] = hi(kl.rotate_left(15));
            k[4] = lo(kl.rotate_left(15));
            k[5] = hi(ka.rotate_left(15));
            k[6] = lo(ka.rotate_left(15));
            ke[1] = hi(ka.rotate_left(30));
            ke[2] = lo(ka.rotate_left(30));
            k[7] = hi(kl.rotate_left(45));
            k[8] = lo(kl.rotate_left(45));
            k[9] = hi(ka.rotate_left(45));
            k[10] = lo(kl.rotate_left(60));
            k[11] = hi(ka.rotate_left(60));
            k[12] = lo(ka.rotate_left(60));
            ke[3] = hi(kl.rotate_left(77));
            ke[4] = lo(kl.rotate_left(77));
            k[13] = hi(kl.rotate_left(94));
            k[14] = lo(kl.rotate_left(94));
            k[15] = hi(ka.rotate_left(94));
            k[16] = lo(ka.rotate_left(94));
            k[17] = hi(kl.rotate_left(111));
            k[18] = lo(kl.rotate_left(111));
            kw[3] = hi(ka.rotate_left(111));
            kw[4] = lo(ka.rotate_left(111));
        } else {
            rounds = 24;
            kw[1] = hi(kl.rotate_left(0));
            kw[2] = lo(kl.rotate_left(0));
            k[1] = hi(kb.rotate_left(0));
            k[2] = lo(kb.rotate_left(0));
            k[3] = hi(kr.rotate_left(15));
            k[4] = lo(kr.rotate_left(15));
            k[5] = hi(ka.rotate_left(15));
            k[6] = lo(ka.rotate_left(15));
            ke[1] = hi(kr.rotate_left(30));
            ke[2] = lo(kr.rotate_left(30));
            k[7] = hi(kb.rotate_left(30));
            k[8] = lo(kb.rotate_left(30));
            k[9] = hi(kl.rotate_left(45));
            k[10] = lo(kl.rotate_left(45));
            k[11] = hi(ka.rotate_left(45));
            k[12] = lo(ka.rotate_left(45));
            ke[3] = hi(kl.rotate_left(60));
            ke[4] = lo(kl.rotate_left(60));
            k[13] = hi(kr.rotate_left(60));
            k[14] = lo(kr.rotate_left(60));
            k[15] = hi(kb.rotate_left(60));
            k[16] = lo(kb.rotate_left(60));
            k[17] = hi(kl.rotate_left(77));
            k[18] = lo(kl.rotate_left(77));
            ke[5] = hi(ka.rotate_left(77));
            ke[6] = lo(ka.rotate_left(77));
            k[19] = hi(kr.rotate_left(94));
            k[20] = lo(kr.rotate_left(94));
            k[21] = hi(ka.rotate_left(94));
            k[22] = lo(ka.rotate_left(94));
            k[23] = hi(kl.rotate_left(111));
            k[24] = lo(kl.rotate_left(111));
            kw[3] = hi(kb.rotate_left(111));
            kw[4] = lo(kb.rotate_left(111));
        }
        Some(Camellia { kw, k, ke, rounds })
    }

    /// The data-randomising part (RFC 3713 sections 2.3.1 / 2.3.2) with the given subkeys.
    fn crypt(m: u128, kw: &[u64; 5], k: &[u64; 25], ke: &[u64; 7], rounds: usize) -> u128 {
        let mut d1 = hi(m);
        let mut d2 = lo(m);
        d1 ^= kw[1]; // Prewhitening
        d2 ^= kw[2];
        let groups = rounds / 6; // 3 or 4 groups of six rounds
        for g in 0..groups {
            d2 ^= f(d1, k[6 * g + 1]); // Round 6g+1
            d1 ^= f(d2, k[6 * g + 2]); // Round 6g+2
            d2 ^= f(d1, k[6 * g + 3]);
            d1 ^= f(d2, k[6 * g + 4]);
            d2 ^= f(d1, k[6 * g + 5]);
            d1 ^= f(d2, k[6 * g + 6]);
            if g + 1 < groups {
                d1 = fl(d1, ke[2 * g + 1]); // FL
                d2 = flinv(d2, ke[2 * g + 2]); // FLINV
            }
        }
        d2 ^= kw[3]; // Postwhitening
        d1 ^= kw[4];
        ((d2 as u128) << 64) | (d1 as u128)
    }

    pub fn encrypt(&self, block: &mut [u8]) {
        assert_eq!(block.len(), Self::BLOCK);
        let mut a = [0u8; 16];
        a.copy_from_slice(block);
        let c = Self::crypt(u128::from_be_bytes(a), &self.kw, &self.k, &self.ke, self.rounds);
        block.copy_from_slice(&c.to_be_bytes());
    }

    /// "The same procedure as encryption, with the order of the subkeys reversed":
    /// kw1 <-> kw3, kw2 <-> kw4, k_i <-> k_{R+1-i}, ke_i <-> ke_{E+1-i}.
    pub fn decrypt(&self, block: &mut [u8]) {
        assert_eq!(block.len(), Self::BLOCK);
        let r = self.rounds;
        let e = if r == 18 { 4 } else { 6 };
        let mut kw = [0u64; 5];
        kw[1] = self.kw[3];
        kw[2] = self.kw[4];
        kw[3] = self.kw[1];
        kw[4] = self.kw[2];
        let mut k = [0u64; 25];
        for i in 1..=r {
            k[i] = self.k[r + 1 - i];
        }
        let mut ke = [0u64; 7];
        for i in 1..=e {
            ke[i] = self.ke[e + 1 - i];
        }
        let mut a = [0u8; 16];
        a.copy_from_slice(block);
        let m = Self::crypt(u128::from_be_bytes(a), &kw, &k, &ke, r);
        block.copy_from_slice(&m.to_be_bytes());
    }
}

#[cfg(test)]
mod tests {
    use super::*;

    fn hex(s: &str) -> Vec<u8> {
        (0..s.len() / 2).map(|i| u8::from_str_radix(&s[2 * i..2 * i + 2], 16).unwrap()).collect()
    }

    #[test]
    fn sbox1_is_a_permutation() {
        let mut seen = [false; 256];
        for b in 0..=255u8 {
            seen[sbox1(b) as usize] = true;
        }
        assert!(seen.iter().all(|&s| s));
    }

    /// SIGMA values as printed in RFC 3713 section 2.2.
    #[test]
    fn sigma_as_printed() {
        assert_eq!(
            sigma(),
            [
                0xA09E667F3BCC908B,
                0xB67AE8584CAA73B2,
                0xC6EF372FE94F82BE,
                0x54FF53A5F1D36F1C,
                0x10E527FADE682D1D,
                0xB05688C2B3E6C1FD
            ]
        );
    }

    fn check(key: &str, pt: &str, ct: &str) {
        let c = Camellia::new(&hex(key)).unwrap();
        let mut b = hex(pt);
        c.encrypt(&mut b);
        assert_eq!(b, hex(ct));
        c.decrypt(&mut b);
        assert_eq!(b, hex(pt));
    }

    /// RFC 3713 section 4 ("Examples"): the three test vectors.
    #[test]
    fn rfc3713_examples() {
        check(
            "0123456789abcdeffedcba9876543210",
            "0123456789abcdeffedcba9876543210",
            "67673138549669730857065648eabe43",
        );
        check(
            "0123456789abcdeffedcba98765432100011223344556677",
            "0123456789abcdeffedcba9876543210",
            "b4993401b3e996f84ee5cee7d79b09b9",
        );
        check(
            "0123456789abcdeffedcba987654321000112233445566778899aabbccddeeff",
            "0123456789abcdeffedcba9876543210",
            "9acc237dff16d76c20ef7c919e3a7509",
        );
    }

    #[test]
    fn key_lengths() {
        for n in 0..40 {
            assert_eq!(Camellia::new(&vec![0u8; n]).is_some(), n == 16 || n == 24 || n == 32);
        }
    }
}
