//! Reference model of the BelT block cipher `belt-block` and of the wide-block algorithms
//! `belt-wblock` / `belt-wblock^-1` (STB 34.101.31-2020, sections 6.1 and 6.2), written
//! literally from the standard.
//!
//! Conventions (those of the standard)
//! -----------------------------------
//! * Words are octet strings; a 32-bit word `u = u_1 || u_2 || u_3 || u_4` is identified
//!   with the number `u_1 + 2^8 u_2 + 2^16 u_3 + 2^24 u_4` (**little-endian**).  `RotHi^r`
//!   is the cyclic shift towards the high-order bits, i.e. `rotate_left(r)` of that number.
//! * Block `X = a || b || c || d`: 16 bytes, four little-endian `u32`.
//! * Key `theta = theta_1 || ... || theta_8`: 32 bytes, eight little-endian `u32`;
//!   the round keys are `K[1..56] = theta_1..theta_8` repeated seven times
//!   (`K[j] = theta_{((j-1) mod 8) + 1}`), round i uses `K[7i-6] .. K[7i]`.
//! * `H` is transcribed in the standard's 16 x 16 layout (Table 1): the entry in row `x`
//!   and column `y` is `H(xy)` for the octet with hexadecimal digits `xy`.
//!   `G_r(u) = RotHi^r(H(u_1) || H(u_2) || H(u_3) || H(u_4))` is evaluated directly (no
//!   pre-rotated tables).
//! * `belt-wblock`: `<i>_128` (the round counter as a 128-bit little-endian number) is XORed
//!   into the block, i.e. its low byte meets the *first* octet.

/// Substitution H of STB 34.101.31, Table 1 (row = high hex digit, column = low hex digit).
const H: [[u8; 16]; 16] = [
    [0xB1, 0x94, 0xBA, 0xC8, 0x0A, 0x08, 0xF5, 0x3B, 0x36, 0x6D, 0x00, 0x8E, 0x58, 0x4A, 0x5D, 0xE4],
    [0x85, 0x04, 0xFA, 0x9D, 0x1B, 0xB6, 0xC7, 0xAC, 0x25, 0x2E, 0x72, 0xC2, 0x02, 0xFD, 0xCE, 0x0D],
    [0x5B, 0xE3, 0xD6, 0x12, 0x17, 0xB9, 0x61, 0x81, 0xFE, 0x67, 0x86, 0xAD, 0x71, 0x6B, 0x89, 0x0B],
    [0x5C, 0xB0, 0xC0, 0xFF, 0x33, 0xC3, 0x56, 0xB8, 0x35, 0xC4, 0x05, 0xAE, 0xD8, 0xE0, 0x7F, 0x99],
    [0xE1, 0x2B, 0xDC, 0x1A, 0xE2, 0x82, 0x57, 0xEC, 0x70, 0x3F, 0xCC, 0xF0, 0x95, 0xEE, 0x8D, 0xF1],
    [0xC1, 0xAB, 0x76, 0x38, 0x9F, 0xE6, 0x78, 0xCA, 0xF7, 0xC6, 0xF8, 0x60, 0xD5, 0xBB, 0x9C, 0x4F],
    [0xF3, 0x3C, 0x65, 0x7B, 0x63, 0x7C, 0x30, 0x6A, 0xDD, 0x4E, 0xA7, 0x79, 0x9E, 0xB2, 0x3D, 0x31],
    [0x3E, 0x98, 0xB5, 0x6E, 0x27, 0xD3, 0xBC, 0xCF, 0x59, 0x1E, 0x18, 0x1F, 0x4C, 0x5A, 0xB7, 0x93],
    [0xE9, 0xDE, 0xE7, 0x2C, 0x8F, 0x0C, 0x0F, 0xA6, 0x2D, 0xDB, 0x49, 0xF4, 0x6F, 0x73, 0x96, 0x47],
    [0x06, 0x07, 0x53, 0x16, 0xED, 0x24, 0x7A, 0x37, 0x39, 0xCB, 0xA3, 0x83, 0x03, 0xA9, 0x8B, 0xF6],
    [0x92, 0xBD, 0x9B, 0x1C, 0xE5, 0xD1, 0x41, 0x01, 0x54, 0x45, 0xFB, 0xC9, 0x5E, 0x4D, 0x0E, 0xF2],
    [0x68, 0x20, 0x80, 0xAA, 0x22, 0x7D, 0x64, 0x2F, 0x26, 0x87, 0xF9, 0x34, 0x90, 0x40, 0x55, 0x11],
    [0xBE, 0x32, 0x97, 0x13, 0x43, 0xFC, 0x9A, 0x48, 0xA0, 0x2A, 0x88, 0x5F, 0x19, 0x4B, 0x09, 0xA1],
    [0x7E, 0xCD, 0xA4, 0xD0, 0x15, 0x44, 0xAF, 0x8C, 0xA5, 0x84, 0x50, 0xBF, 0x66, 0xD2, 0xE8, 0x8A],
    [0xA2, 0xD7, 0x46, 0x52, 0x42, 0xA8, 0xDF, 0xB3, 0x69, 0x74, 0xC5, 0x51, 0xEB, 0x23, 0x29, 0x21],
    [0xD4, 0xEF, 0xD9, 0xB4, 0x3A, 0x62, 0x28, 0x75, 0x91, 0x14, 0x10, 0xEA, 0x77, 0x6C, 0xDA, 0x1D],
];

fn h(x: u8) -> u8 {
    H[(x >> 4) as usize][(x & 0xF) as usize]
}

/// G_r(u) = RotHi^r( H(u_1) || H(u_2) || H(u_3) || H(u_4) )
fn g(r: u32, u: u32) -> u32 {
    let o = u.to_le_bytes(); // o[0] = u_1, the first octet
    let w = u32::from_le_bytes([h(o[0]), h(o[1]), h(o[2]), h(o[3])]);
    w.rotate_left(r)
}

/// Round key K[j], j = 1..56: theta_1..theta_8 repeated.
fn k(theta: &[u32; 8], j: usize) -> u32 {
    debug_assert!((1..=56).contains(&j));
    theta[(j - 1) % 8]
}

/// belt-block encryption on words (STB 34.101.31-2020, 6.1.3).
pub fn belt_block_raw(x: [u32; 4], key: &[u32; 8]) -> [u32; 4] {
    let [mut a, mut b, mut c, mut d] = x;
    for i in 1..=8usize {
        // 1) b <- b xor G_5(a [+] K[7i-6])
        b ^= g(5, a.wrapping_add(k(key, 7 * i - 6)));
        // 2) c <- c xor G_21(d [+] K[7i-5])
        c ^= g(21, d.wrapping_add(k(key, 7 * i - 5)));
        // 3) a <- a [-] G_13(b [+] K[7i-4])
        a = a.wrapping_sub(g(13, b.wrapping_add(k(key, 7 * i - 4))));
        // 4) e <- G_21(b [+] c [+] K[7i-3]) xor <i>_32
        let e = g(21, b.wrapping_add(c).wrapping_add(k(key, 7 * i - 3))) ^ (i as u32);
        // 5) b <- b [+] e
        b = b.wrapping_add(e);
        // 6) c <- c [-] e
        c = c.wrapping_sub(e);
        // 7) d <- d [+] G_13(c [+] K[7i-2])
        d = d.wrapping_add(g(13, c.wrapping_add(k(key, 7 * i - 2))));
        // 8) b <- b xor G_21(a [+] K[7i-1])
        b ^= g(21, a.wrapping_add(k(key, 7 * i - 1)));
        // 9) c <- c xor G_5(d [+] K[7i])
        c ^= g(5, d.wrapping_add(k(key, 7 * i)));
        // 10) a <-> b
        std::mem::swap(&mut a, &mut b);
        // 11) c <-> d
        std::mem::swap(&mut c, &mut d);
        // 12) b <-> c
        std::mem::swap(&mut b, &mut c);
    }
    // Y <- b || d || a || c
    [b, d, a, c]
}

/// belt-block decryption on words (STB 34.101.31-2020, 6.1.4).
pub fn belt_block_raw_dec(x: [u32; 4], key: &[u32; 8]) -> [u32; 4] {
    let [mut a, mut b, mut c, mut d] = x;
    for i in (1..=8usize).rev() {
        // 1) b <- b xor G_5(a [+] K[7i])
        b ^= g(5, a.wrapping_add(k(key, 7 * i)));
        // 2) c <- c xor G_21(d [+] K[7i-1])
        c ^= g(21, d.wrapping_add(k(key, 7 * i - 1)));
        // 3) a <- a [-] G_13(b [+] K[7i-2])
        a = a.wrapping_sub(g(13, b.wrapping_add(k(key, 7 * i - 2))));
        // 4) e <- G_21(b [+] c [+] K[7i-3]) xor <i>_32
        let e = g(21, b.wrapping_add(c).wrapping_add(k(key, 7 * i - 3))) ^ (i as u32);
        // 5) b <- b [+] e
        b = b.wrapping_add(e);
        // 6) c <- c [-] e
        c = c.wrapping_sub(e);
        // 7) d <- d [+] G_13(c [+] K[7i-4])
        d = d.wrapping_add(g(13, c.wrapping_add(k(key, 7 * i - 4))));
        // 8) b <- b xor G_21(a [+] K[7i-5])
        b ^= g(21, a.wrapping_add(k(key, 7 * i - 5)));
        // 9) c <- c xor G_5(d [+] K[7i-6])
        c ^= g(5, d.wrapping_add(k(key, 7 * i - 6)));
        // 10) a <-> b
        std::mem::swap(&mut a, &mut b);
        // 11) c <-> d
        std::mem::swap(&mut c, &mut d);
        // 12) a <-> d
        std::mem::swap(&mut a, &mut d);
    }
    // X <- c || a || d || b
    [c, a, d, b]
}

fn words<const N: usize>(bytes: &[u8]) -> [u32; N] {
    assert_eq!(bytes.len(), 4 * N);
    let mut w = [0u32; N];
    for i in 0..N {
        w[i] = u32::from_le_bytes([bytes[4 * i], bytes[4 * i + 1], bytes[4 * i + 2], bytes[4 * i + 3]]);
    }
    w
}

fn unwords(w: &[u32; 4]) -> [u8; 16] {
    let mut o = [0u8; 16];
    for i in 0..4 {
        o[4 * i..4 * i + 4].copy_from_slice(&w[i].to_le_bytes());
    }
    o
}

pub struct Belt {
    theta: [u32; 8],
}

impl Belt {
    pub const BLOCK: usize = 16;

    pub fn new(key: &[u8]) -> Option<Self> {
        if key.len() != 32 {
            return None;
        }
        Some(Belt { theta: words::<8>(key) })
    }

    pub fn encrypt(&self, block: &mut [u8]) {
        assert_eq!(block.len(), Self::BLOCK);
        let y = belt_block_raw(words::<4>(block), &self.theta);
        block.copy_from_slice(&unwords(&y));
    }

    pub fn decrypt(&self, block: &mut [u8]) {
        assert_eq!(block.len(), Self::BLOCK);
        let x = belt_block_raw_dec(words::<4>(block), &self.theta);
        block.copy_from_slice(&unwords(&x));
    }
}

/// belt-block(s, K) on a 16-byte block.
fn belt_block_bytes(s: &[u8; 16], theta: &[u32; 8]) -> [u8; 16] {
    unwords(&belt_block_raw(words::<4>(s), theta))
}

/// <i>_128: the number i as a 128-bit word (little-endian octets).
fn counter_128(i: usize) -> [u8; 16] {
    (i as u128).to_le_bytes()
}

/// r_1 xor r_2 xor ... xor r_{n-1} (the n-1 full leading 128-bit blocks of r), starting from
/// `init`, skipping the first `skip` of them.
fn xor_leading_blocks(r: &[u8], n: usize, skip: usize, init: [u8; 16]) -> [u8; 16] {
    let mut s = init;
    for j in skip..(n - 1) {
        for t in 0..16 {
            s[t] ^= r[16 * j + t];
        }
    }
    s
}

/// belt-wblock (STB 34.101.31-2020, 6.2.3).  `data` is X on input and Y on output; any octet
/// length >= 32.  Returns `false` (data untouched) when `data.len() < 32`.
///
/// Notation of the standard: n = ceil(|X| / 128); r = r_1 || ... || r_n with
/// |r_1| = ... = |r_{n-1}| = 128 and 0 < |r_n| <= 128; r* = the last 128 bits of r (it
/// overlaps r_{n-1} when |r_n| < 128).
pub fn wblock_enc(data: &mut [u8], key: &[u8; 32]) -> bool {
    let len = data.len();
    if len < 32 {
        return false;
    }
    let theta = words::<8>(key);
    let n = (len + 15) / 16;
    // 1. r <- X  (in place)
    let r = data;
    // 2. for i = 1, 2, ..., 2n
    for i in 1..=2 * n {
        // 2.1) s <- r_1 xor r_2 xor ... xor r_{n-1}
        let s = xor_leading_blocks(r, n, 0, [0u8; 16]);
        // 2.2) r* <- r* xor belt-block(s, K) xor <i>_128
        let e = belt_block_bytes(&s, &theta);
        let ctr = counter_128(i);
        for t in 0..16 {
            r[len - 16 + t] ^= e[t] ^ ctr[t];
        }
        // 2.3) r <- ShLo^128(r): drop the first 128 bits, append 128 zero bits
        for t in 0..len - 16 {
            r[t] = r[t + 16];
        }
        for t in len - 16..len {
            r[t] = 0;
        }
        // 2.4) r* <- s
        r[len - 16..].copy_from_slice(&s);
    }
    // 3. Y <- r
    true
}

/// belt-wblock^-1 (STB 34.101.31-2020, 6.2.4).  Same conventions as [`wblock_enc`].
pub fn wblock_dec(data: &mut [u8], key: &[u8; 32]) -> bool {
    let len = data.len();
    if len < 32 {
        return false;
    }
    let theta = words::<8>(key);
    let n = (len + 15) / 16;
    // 1. r <- Y
    let r = data;
    // 2. for i = 2n, ..., 2, 1
    for i in (1..=2 * n).rev() {
        // 2.1) s <- r*
        let mut s = [0u8; 16];
        s.copy_from_slice(&r[len - 16..]);
        // 2.2) r <- ShHi^128(r): prepend 128 zero bits, drop the last 128 bits
        for t in (16..len).rev() {
            r[t] = r[t - 16];
        }
        for t in 0..16 {
            r[t] = 0;
        }
        // 2.3) r* <- r* xor belt-block(s, K) xor <i>_128
        let e = belt_block_bytes(&s, &theta);
        let ctr = counter_128(i);
        for t in 0..16 {
            r[len - 16 + t] ^= e[t] ^ ctr[t];
        }
        // 2.4) r_1 <- s xor r_2 xor ... xor r_{n-1}
        let r1 = xor_leading_blocks(r, n, 1, s);
        r[..16].copy_from_slice(&r1);
    }
    // 3. X <- r
    true
}

#[cfg(test)]
mod tests {
    use super::*;

    fn hx(s: &str) -> Vec<u8> {
        let s: String = s.chars().filter(|c| !c.is_whitespace()).collect();
        (0..s.len() / 2)
            .map(|i| u8::from_str_radix(&s[2 * i..2 * i + 2], 16).unwrap())
            .collect()
    }

    #[test]
    fn h_is_permutation() {
        let mut seen = [false; 256];
        for x in 0..=255u8 {
            let y = h(x) as usize;
            assert!(!seen[y]);
            seen[y] = true;
        }
    }

    // The standard's test data are taken from the table H itself: in appendix A,
    // X = H(00..0F) read row-wise, theta = H(80..9F).  This pins the layout of rows 0, 8, 9.
    #[test]
    fn h_layout() {
        let row0: Vec<u8> = (0x00..=0x0Fu8).map(h).collect();
        assert_eq!(row0, hx("B194BAC8 0A08F53B 366D008E 584A5DE4"));
        let r89: Vec<u8> = (0x80..=0x9Fu8).map(h).collect();
        assert_eq!(
            r89,
            hx("E9DEE72C 8F0C0FA6 2DDB49F4 6F739647 06075316 ED247A37 39CBA383 03A98BF6")
        );
    }

    const K1: &str = "E9DEE72C 8F0C0FA6 2DDB49F4 6F739647 06075316 ED247A37 39CBA383 03A98BF6";
    const K2: &str = "92BD9B1C E5D14101 5445FBC9 5E4D0EF2 682080AA 227D642F 2687F934 90405511";

    // STB 34.101.31-2020 appendix A, Table A.1 (belt-block encryption)
    #[test]
    fn table_a1_encrypt() {
        let m = Belt::new(&hx(K1)).unwrap();
        let pt = hx("B194BAC8 0A08F53B 366D008E 584A5DE4");
        let ct = hx("69CCA1C9 3557C9E3 D66BC3E0 FA88FA6E");
        let mut b = pt.clone();
        m.encrypt(&mut b);
        assert_eq!(b, ct);
        m.decrypt(&mut b);
        assert_eq!(b, pt);
        let y = belt_block_raw(words::<4>(&pt), &words::<8>(&hx(K1)));
        assert_eq!(unwords(&y).to_vec(), ct);
    }

    // STB 34.101.31 appendix A, belt-block decryption example (Table A.2 of the 2020
    // edition as cited in /repo/belt-block/tests/mod.rs; numbered A.4 in some editions):
    // X = E12BDC1A..., Y = belt-block^-1(X) = 0DC53006...
    #[test]
    fn table_a2_decrypt() {
        let m = Belt::new(&hx(K2)).unwrap();
        let x = hx("E12BDC1A E28257EC 703FCCF0 95EE8DF1");
        let y = hx("0DC53006 00CAB840 B38448E5 E993F421");
        let mut b = x.clone();
        m.decrypt(&mut b);
        assert_eq!(b, y);
        m.encrypt(&mut b);
        assert_eq!(b, x);
    }

    fn key32(s: &str) -> [u8; 32] {
        let mut k = [0u8; 32];
        k.copy_from_slice(&hx(s));
        k
    }

    // STB 34.101.31-2020 appendix A, Table A.6 (belt-wblock), 48- and 47-octet inputs
    // (hex as listed in /repo/belt-block/tests/mod.rs).
    #[test]
    fn table_a6_wblock() {
        let k = key32(K1);
        let x1 = hx("B194BAC8 0A08F53B 366D008E 584A5DE4
                     8504FA9D 1BB6C7AC 252E72C2 02FDCE0D
                     5BE3D612 17B96181 FE6786AD 716B890B");
        let y1 = hx("49A38EE1 08D6C742 E52B774F 00A6EF98
                     B106CBD1 3EA4FB06 80323051 BC04DF76
                     E487B055 C69BCF54 1176169F 1DC9F6C8");
        let x2 = hx("B194BAC8 0A08F53B 366D008E 584A5DE4
                     8504FA9D 1BB6C7AC 252E72C2 02FDCE0D
                     5BE3D612 17B96181 FE6786AD 716B89");
        let y2 = hx("F08EF22D CAA06C81 FB127219 74221CA7
                     AB82C628 56FCF2F9 FCA006E0 19A28F16
                     E5821A51 F5735946 25DBAB8F 6A5C94");
        for (x, y) in [(x1, y1), (x2, y2)] {
            let mut t = x.clone();
            assert!(wblock_enc(&mut t, &k));
            assert_eq!(t, y);
            assert!(wblock_dec(&mut t, &k));
            assert_eq!(t, x);
        }
    }

    // STB 34.101.31-2020 appendix A, Table A.7 (belt-wblock^-1), 48- and 36-octet inputs.
    #[test]
    fn table_a7_wblock_inv() {
        let k = key32(K2);
        let y3 = hx("E12BDC1A E28257EC 703FCCF0 95EE8DF1
                     C1AB7638 9FE678CA F7C6F860 D5BB9C4F
                     F33C657B 637C306A DD4EA779 9EB23D31");
        let x3 = hx("92632EE0 C21AD9E0 9A39343E 5C07DAA4
                     889B03F2 E6847EB1 52EC99F7 A4D9F154
                     B5EF68D8 E4A39E56 7153DE13 D72254EE");
        let y4 = hx("E12BDC1A E28257EC 703FCCF0 95EE8DF1
                     C1AB7638 9FE678CA F7C6F860 D5BB9C4F
                     F33C657B");
        let x4 = hx("DF3F8822 30BAAFFC 92F05660 32117231
                     0E3CB218 2681EF43 102E6717 5E177BD7
                     5E93E4E8");
        for (x, y) in [(x3, y3), (x4, y4)] {
            let mut t = y.clone();
            assert!(wblock_dec(&mut t, &k));
            assert_eq!(t, x);
            assert!(wblock_enc(&mut t, &k));
            assert_eq!(t, y);
        }
    }

    #[test]
    fn wblock_short_input_untouched() {
        let k = key32(K1);
        for len in 0..32usize {
            let orig: Vec<u8> = (0..len as u8).collect();
            let mut t = orig.clone();
            assert!(!wblock_enc(&mut t, &k));
            assert_eq!(t, orig);
            assert!(!wblock_dec(&mut t, &k));
            assert_eq!(t, orig);
        }
    }

    // structural: round trip for every length 32..=100
    #[test]
    fn wblock_round_trip() {
        let k = key32(K2);
        for len in 32..=100usize {
            let orig: Vec<u8> = (0..len).map(|i| (i * 37 + len) as u8).collect();
            let mut t = orig.clone();
            assert!(wblock_enc(&mut t, &k));
            assert_ne!(t, orig);
            assert!(wblock_dec(&mut t, &k));
            assert_eq!(t, orig);
        }
    }

    #[test]
    fn key_length() {
        assert!(Belt::new(&[0u8; 16]).is_none());
        assert!(Belt::new(&[0u8; 24]).is_none());
        assert!(Belt::new(&[0u8; 31]).is_none());
        assert!(Belt::new(&[0u8; 33]).is_none());
    }
}
