//! Monitors for the `threefish` crate built without the `cipher` feature, with `zeroize`:
//! (a) the u64 API against the Skein 1.3 reference model (C10 / C03 feature-subset clause),
//! (b) drop erases every key-dependent byte (C16).
#[path = "../../driver/src/gen.rs"]
mod gen;
#[path = "../../driver/src/report.rs"]
mod report;
#[path = "../../driver/src/rng.rs"]
mod rng;

use report::{Report, J};
use std::mem::{size_of, MaybeUninit};
use std::ptr;

fn arg(args: &[String], name: &str) -> Option<String> {
    args.iter().position(|a| a == name).and_then(|i| args.get(i + 1).cloned())
}

#[inline(never)]
fn scrub_stack(v: u8) {
    let mut a = [0u8; 64 * 1024];
    for x in a.iter_mut() {
        unsafe { ptr::write_volatile(x, v) };
    }
    std::hint::black_box(&a);
}

macro_rules! size {
    ($rep:ident, $rng:ident, $t:ty, $nw:expr, $name:expr, $n:expr) => {{
        let id = $name;
        // ---- known answers through the u64 API
        for i in 0..$n {
            let kc = gen::pick_class(&mut $rng, i);
            let kb = gen::gen(&mut $rng, $nw * 8, kc);
            let tb = gen::gen(&mut $rng, 16, if i % 3 == 0 { 1 } else { 0 });
            let xc = gen::pick_class(&mut $rng, i + 1);
            let xb = gen::gen(&mut $rng, $nw * 8, xc);
            let mut key = [0u64; $nw];
            let mut blk = [0u64; $nw];
            for j in 0..$nw {
                key[j] = u64::from_le_bytes(kb[8 * j..8 * j + 8].try_into().unwrap());
                blk[j] = u64::from_le_bytes(xb[8 * j..8 * j + 8].try_into().unwrap());
            }
            let tw = [u64::from_le_bytes(tb[..8].try_into().unwrap()), u64::from_le_bytes(tb[8..].try_into().unwrap())];
            let c = <$t>::new_with_tweak_u64(&key, &tw);
            let r = refmodels::threefish::Threefish::new(&kb, tb[..].try_into().unwrap()).unwrap();
            let mut got = blk;
            c.encrypt_block_u64(&mut got);
            let mut want = xb.clone();
            r.encrypt(&mut want);
            let gotb: Vec<u8> = got.iter().flat_map(|w| w.to_le_bytes()).collect();
            $rep.case(rng::fnv64(&[kb.clone(), tb.clone(), xb.clone()].concat()), true);
            if gotb != want {
                $rep.violation(format!("tfmon|{}|encrypt_block_u64 != reference (no `cipher` feature)", id), J::obj(vec![("key", J::s(gen::hex(&kb))), ("tweak", J::s(gen::hex(&tb))), ("block", J::s(gen::hex(&xb)))]));
            }
            let mut back = got;
            c.decrypt_block_u64(&mut back);
            if back != blk {
                $rep.violation(format!("tfmon|{}|decrypt_block_u64 does not invert encrypt_block_u64", id), J::obj(vec![("key", J::s(gen::hex(&kb)))]));
            }
            // byte-array constructor agrees
            let c2 = <$t>::new_with_tweak(kb[..].try_into().unwrap(), tb[..].try_into().unwrap());
            let mut g2 = blk;
            c2.encrypt_block_u64(&mut g2);
            if g2 != got {
                $rep.violation(format!("tfmon|{}|new_with_tweak != new_with_tweak_u64", id), J::obj(vec![("key", J::s(gen::hex(&kb)))]));
            }
        }
        // ---- erasure on drop (all bytes of the subkey table are used by every encryption)
        let n = size_of::<$t>();
        let mut snaps: Vec<[(Vec<u8>, Vec<u8>); 2]> = Vec::new();
        for k in 0..12u64 {
            let kb = if k == 0 { vec![0u8; $nw * 8] } else if k == 1 { vec![0xFFu8; $nw * 8] } else { $rng.bytes($nw * 8) };
            let mut pair: [(Vec<u8>, Vec<u8>); 2] = Default::default();
            for (ai, ambient) in [0x00u8, 0xA5].into_iter().enumerate() {
                let kc = kb.clone();
                let mut slot: Box<MaybeUninit<$t>> = Box::new(MaybeUninit::uninit());
                unsafe { ptr::write_bytes(slot.as_mut_ptr() as *mut u8, ambient, n) };
                scrub_stack(ambient);
                let v = if k % 2 == 0 { <$t>::new_with_tweak(kc[..].try_into().unwrap(), &[3u8; 16]) } else { <$t>::new_with_tweak(kc[..].try_into().unwrap(), &[3u8; 16]).clone() };
                unsafe { slot.as_mut_ptr().write(v) };
                let p = slot.as_ptr() as *const u8;
                let before: Vec<u8> = (0..n).map(|i| unsafe { ptr::read_volatile(p.add(i)) }).collect();
                unsafe { ptr::drop_in_place(slot.as_mut_ptr()) };
                let after: Vec<u8> = (0..n).map(|i| unsafe { ptr::read_volatile(p.add(i)) }).collect();
                pair[ai] = (before, after);
            }
            $rep.case(rng::fnv64(&kb) ^ 77, k >= 2);
            snaps.push(pair);
        }
        let mut residue = 0;
        let mut judged = 0;
        for p in 0..n {
            let stable = snaps.iter().all(|s| s[0].0[p] == s[1].0[p]);
            let varies = snaps.iter().any(|s| s[0].0[p] != snaps[0][0].0[p]);
            if stable && varies {
                judged += 1;
                if snaps.iter().any(|s| s[0].1[p] != 0 || s[1].1[p] != 0) {
                    residue += 1;
                }
            }
        }
        $rep.set(id, "size_of", n as i64);
        $rep.set(id, "key_dependent_bytes", judged);
        $rep.set(id, "residue_bytes", residue);
        if judged == 0 {
            $rep.inconclusive.push(format!("{}: no key-dependent byte observed", id));
        }
        if residue > 0 {
            $rep.violation(format!("tfmon|{}|key-dependent bytes survive drop (zeroize without the `cipher` feature)", id), J::obj(vec![("size_of", J::I(n as i64)), ("key_dependent", J::I(judged)), ("surviving", J::I(residue))]));
        }
        $rep.sample(J::obj(vec![("type", J::s(id)), ("size_of", J::I(n as i64)), ("key_dependent_bytes", J::I(judged)), ("residue_bytes", J::I(residue))]));
    }};
}

fn main() {
    let args: Vec<String> = std::env::args().collect();
    let seed: u64 = arg(&args, "--seed").and_then(|s| s.parse().ok()).unwrap_or(1);
    let thorough = arg(&args, "--tier").as_deref() == Some("thorough");
    let scale: f64 = arg(&args, "--scale").and_then(|s| s.parse().ok()).unwrap_or(1.0);
    let n = (((if thorough { 40_000 } else { 2_000 }) as f64) * scale).max(4.0) as u64;
    let t0 = std::time::Instant::now();
    let mut rep = Report::new("tfmon");
    let mut rng = rng::Rng::new(seed, "tfmon", 0);
    size!(rep, rng, threefish::Threefish256, 4, "threefish::Threefish256(no-cipher,zeroize)", n);
    size!(rep, rng, threefish::Threefish512, 8, "threefish::Threefish512(no-cipher,zeroize)", n);
    size!(rep, rng, threefish::Threefish1024, 16, "threefish::Threefish1024(no-cipher,zeroize)", n);
    let status = if !rep.violations.is_empty() { "violated" } else if !rep.inconclusive.is_empty() { "inconclusive" } else { "ok" };
    let j = rep.to_json(vec![
        ("cfg", J::s(arg(&args, "--cfg").unwrap_or_else(|| "tf-nocipher".into()))),
        ("detect", J::s("real")),
        ("seed", J::I(seed as i64)),
        ("tier", J::s(if thorough { "thorough" } else { "quick" })),
        ("wall_s", J::F(t0.elapsed().as_secs_f64())),
        ("status", J::s(status)),
    ]);
    match arg(&args, "--out") {
        Some(p) => std::fs::write(p, j.to_string()).expect("write report"),
        None => println!("{}", j.to_string()),
    }
    eprintln!("[tfmon] evaluations={} violations={} status={}", rep.evaluations, rep.violations.len(), status);
    std::process::exit(match status {
        "ok" => 0,
        "violated" => 1,
        _ => 2,
    });
}
